#!/bin/bash
# usage: scripts_mut.sh <prop> <sed-expr> <file-relative>   : applies a sed mutation on a scratch copy and runs the check there
set -e
prop=$1; expr=$2; file=$3
S=$(mktemp -d /var/tmp/mut-XXXXXX)
trap "rm -rf $S" EXIT
cp -r /repo $S/repo
sed -i "$expr" $S/repo/$file
(cd $S/repo && git diff --stat | tail -1)
(cd $S/repo && GOFLAGS=-mod=mod GOPROXY=off go build ./... ) || { echo "MUTANT DOES NOT COMPILE"; exit 3; }
/verif/bin/govc check -repo $S/repo -specs /verif/specs -prop $prop -replays $S/replays 2>&1 | grep -v "^  discharged" | cut -c1-300
