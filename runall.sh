#!/bin/bash
# runs the quick check of every property given (default: all claimed in MANIFEST) 4 at a time; prints a summary
cd "$(dirname "$0")"
props="$@"
if [ -z "$props" ]; then props=$(python3 -c "import json;print(' '.join(c['property_id'] for c in json.load(open('MANIFEST.json'))['checks']))"); fi
tier=${VERIF_TIER:-quick}
mkdir -p /var/tmp/govc-runall
printf '%s\n' $props | xargs -P 4 -I{} sh -c "./check {} $tier > /var/tmp/govc-runall/{}.txt 2>&1; echo {} exit=\$?"
for p in $props; do echo "== $p"; grep -v "^  discharged\|KNOWN-FINDING" /var/tmp/govc-runall/$p.txt | cut -c1-330 | tail -${TAILN:-8}; done
