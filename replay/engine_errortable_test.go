package engine

import "testing"

// C05: the error table documented in README.md (codes 0..5).
func TestErrorTableMatchesDocumentation(t *testing.T) {
	want := []struct {
		cm   interface{ }
		code int
		msg  string
	}{}
	_ = want
	if UNSUPPORTED_PROTOCOL_VERSION.Code != 5 {
		t.Fatalf("UNSUPPORTED_PROTOCOL_VERSION.Code = %d, documented value is 5 (4 is Forbidden)", UNSUPPORTED_PROTOCOL_VERSION.Code)
	}
	if FORBIDDEN.Code != 4 || BAD_REQUEST.Code != 3 || BAD_HANDSHAKE_METHOD.Code != 2 || UNKNOWN_SID.Code != 1 || UNKNOWN_TRANSPORT.Code != 0 {
		t.Fatal("error table differs from the documentation")
	}
}
