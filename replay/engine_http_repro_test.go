package engine

import (
	"encoding/json"
	"io"
	"net/http"
	"net/http/httptest"
	"strings"
	"testing"
	"time"

	"github.com/zishang520/engine.io/v2/config"
)

// HTTP-level reproductions on the real code (run with go test -overlay; nothing is written to the repository).

func reproServer(t *testing.T, opts *config.ServerOptions) (Server, *httptest.Server) {
	t.Helper()
	var o any
	if opts != nil {
		o = opts
	}
	srv := NewServer(o)
	ts := httptest.NewServer(http.HandlerFunc(func(w http.ResponseWriter, r *http.Request) { srv.ServeHTTP(w, r) }))
	t.Cleanup(func() { ts.CloseClientConnections(); go ts.Close(); go srv.Close() })
	return srv, ts
}

func reproHandshake(t *testing.T, ts *httptest.Server) (sid string, resp *http.Response) {
	t.Helper()
	resp, err := http.Get(ts.URL + "/engine.io/?EIO=4&transport=polling")
	if err != nil {
		t.Fatal(err)
	}
	body, _ := io.ReadAll(resp.Body)
	resp.Body.Close()
	if len(body) < 2 || body[0] != '0' {
		t.Fatalf("unexpected handshake body %q", body)
	}
	var open struct {
		Sid string `json:"sid"`
	}
	if err := json.Unmarshal(body[1:], &open); err != nil {
		t.Fatal(err)
	}
	return open.Sid, resp
}

// C11/C09: a data request with binary content type on a revision-4 session must be answered.
func TestV4BinaryPostIsAnswered(t *testing.T) {
	_, ts := reproServer(t, nil)
	sid, _ := reproHandshake(t, ts)
	done := make(chan *http.Response, 1)
	go func() {
		req, _ := http.NewRequest("POST", ts.URL+"/engine.io/?EIO=4&transport=polling&sid="+sid, strings.NewReader("4hello"))
		req.Header.Set("Content-Type", "application/octet-stream")
		resp, err := http.DefaultClient.Do(req)
		if err == nil {
			done <- resp
		}
	}()
	select {
	case resp := <-done:
		resp.Body.Close()
		if resp.StatusCode != 400 {
			t.Fatalf("status %d, want 400", resp.StatusCode)
		}
	case <-time.After(2 * time.Second):
		t.Fatal("no HTTP response to a binary POST on a v4 polling session within 2s (handler stuck)")
	}
}

type chunked struct{ r io.Reader }

func (c chunked) Read(p []byte) (int, error) { return c.r.Read(p) }

// C10: a body of undeclared length (chunked) larger than maxHttpBufferSize must not be delivered; 413 is expected.
func TestChunkedBodyAboveLimitIsRefused(t *testing.T) {
	opts := config.DefaultServerOptions()
	opts.SetMaxHttpBufferSize(100)
	srv, ts := reproServer(t, opts)
	got := make(chan int, 4)
	srv.On("connection", func(args ...any) {
		s := args[0].(Socket)
		s.On("message", func(m ...any) {
			if r, ok := m[0].(io.Reader); ok {
				b, _ := io.ReadAll(r)
				got <- len(b)
			}
		})
	})
	sid, _ := reproHandshake(t, ts)
	payload := "4" + strings.Repeat("x", 5000)
	req, _ := http.NewRequest("POST", ts.URL+"/engine.io/?EIO=4&transport=polling&sid="+sid, chunked{strings.NewReader(payload)})
	req.ContentLength = -1 // Transfer-Encoding: chunked
	resp, err := http.DefaultClient.Do(req)
	if err != nil {
		t.Fatal(err)
	}
	resp.Body.Close()
	select {
	case n := <-got:
		t.Fatalf("a %d-byte message was delivered although maxHttpBufferSize is 100 (status %d)", n, resp.StatusCode)
	case <-time.After(300 * time.Millisecond):
	}
	if resp.StatusCode != 413 {
		t.Fatalf("status %d, want 413", resp.StatusCode)
	}
}

// sanity (must pass before and after the repairs): an ordinary data request is delivered and acknowledged with "ok".
func TestOrdinaryPostDelivered(t *testing.T) {
	srv, ts := reproServer(t, nil)
	got := make(chan string, 4)
	srv.On("connection", func(args ...any) {
		s := args[0].(Socket)
		s.On("message", func(m ...any) {
			if r, ok := m[0].(io.Reader); ok {
				b, _ := io.ReadAll(r)
				got <- string(b)
			}
		})
	})
	sid, _ := reproHandshake(t, ts)
	resp, err := http.Post(ts.URL+"/engine.io/?EIO=4&transport=polling&sid="+sid, "text/plain;charset=UTF-8", strings.NewReader("4hello"))
	if err != nil {
		t.Fatal(err)
	}
	body, _ := io.ReadAll(resp.Body)
	resp.Body.Close()
	if resp.StatusCode != 200 || string(body) != "ok" {
		t.Fatalf("status %d body %q", resp.StatusCode, body)
	}
	select {
	case m := <-got:
		if m != "hello" {
			t.Fatalf("got %q", m)
		}
	case <-time.After(time.Second):
		t.Fatal("message not delivered")
	}
}
