package types

import "testing"

// Reproduction on the real code (go test -overlay): registering a nil listener must not make later removals panic
// ("removing a listener removes exactly one registration of that function and never panics").
func TestRemoveListenerAfterNilRegistration(t *testing.T) {
	e := NewEventEmitter()
	f := func(...any) {}
	e.On("x", nil, f)
	defer func() {
		if r := recover(); r != nil {
			t.Fatalf("RemoveListener panicked: %v", r)
		}
	}()
	if !e.RemoveListener("x", f) {
		t.Fatalf("registered listener not removed")
	}
	if n := len(e.Listeners("x")); n != 0 {
		t.Fatalf("%d listeners left, want 0", n)
	}
}
