package types

// Replay driver for types.Slice: rebuilds a container and the arguments of one method call from a solver model, runs the
// REAL method of the tree under check (instantiated at int) and compares with ordinary sequence semantics: same
// contents and results, an error instead of a panic for indices and counts outside the sequence, and no shared storage
// with the caller's slices (the caller's elements and spare capacity are unchanged, later caller writes do not show).

import (
	"encoding/json"
	"fmt"
	"os"
	"reflect"
	"strconv"
	"strings"
	"testing"
)

type govcSliceInput struct {
	Unit, Obligation, Tag, Clause string
	Values                        map[string]string
}

func (in *govcSliceInput) n(key string, def int64) int64 {
	if v, ok := in.Values[key]; ok {
		if x, err := strconv.ParseInt(v, 10, 64); err == nil {
			return x
		}
	}
	return def
}

func govcSeq(n int64, base int) []int {
	out := make([]int, n)
	for i := range out {
		out[i] = base + i
	}
	return out
}

func TestGovcReplaySlice(t *testing.T) {
	b, err := os.ReadFile(os.Getenv("GOVC_REPLAY_INPUT"))
	if err != nil {
		t.Skip("no replay input")
	}
	var in govcSliceInput
	if json.Unmarshal(b, &in) != nil {
		t.Fatal("bad input")
	}
	n := in.n("s.elements.len", 0)
	if n < 0 || n > 1<<16 {
		fmt.Printf("REPLAY-NOT-REPLAYABLE: container length %d\n", n)
		return
	}
	method := in.Unit[strings.LastIndex(in.Unit, ".")+1:]
	s := NewSlice(govcSeq(n, 100)...)
	ref := govcSeq(n, 100)
	verdict := func(ok bool, f string, a ...any) {
		if ok {
			fmt.Printf("REPLAY-NOT-REPRODUCED: %s behaves as a sequence on this input\n", method)
		} else {
			fmt.Printf("REPLAY-CONFIRMED: "+f+"\n", a...)
		}
	}
	var panicked any
	run := func(f func()) {
		defer func() { panicked = recover() }()
		f()
	}
	// caller slice with spare capacity filled with sentinels
	mkArg := func(lenKey, capKey string) ([]int, []int) {
		l, c := in.n(lenKey, 0), in.n(capKey, 0)
		if l < 0 || l > 1<<12 {
			l = 1
		}
		if c < l || c > l+64 {
			c = l + 4
		}
		backing := make([]int, c)
		for i := range backing {
			backing[i] = -1000 - i
		}
		return backing[:l], append([]int(nil), backing...)
	}
	switch method {
	case "Push", "Unshift":
		arg, snap := mkArg("elements.len", "elements.cap")
		var got int
		run(func() {
			if method == "Push" {
				got = s.Push(arg...)
			} else {
				got = s.Unshift(arg...)
			}
		})
		want := append(append([]int(nil), ref...), arg...)
		if method == "Unshift" {
			want = append(append([]int(nil), arg...), ref...)
		}
		if panicked != nil {
			verdict(false, "%s panicked: %v", method, panicked)
			return
		}
		all := s.All()
		if got != len(want) || !reflect.DeepEqual(all, want) {
			verdict(false, "%s(%d elements) on a container of %d returned %d and left %v; a sequence gives %d and %v", method, len(arg), n, got, all, len(want), want)
			return
		}
		if !reflect.DeepEqual(arg[:cap(arg)], snap) {
			verdict(false, "%s wrote into the caller's slice (spare capacity included): %v, was %v", method, arg[:cap(arg)], snap)
			return
		}
		if len(arg) > 0 {
			arg[0] = 424242
			if a2 := s.All(); !reflect.DeepEqual(a2, want) {
				verdict(false, "%s shares storage with the caller's slice: a later write by the caller changed the container to %v", method, a2)
				return
			}
		}
		verdict(true, "")
	case "Pop", "Shift":
		var el int
		var e error
		run(func() {
			if method == "Pop" {
				el, e = s.Pop()
			} else {
				el, e = s.Shift()
			}
		})
		if panicked != nil {
			verdict(false, "%s panicked on a container of %d: %v", method, n, panicked)
			return
		}
		if n == 0 {
			verdict(e != nil && s.Len() == 0, "%s on an empty container returned (%v, %v)", method, el, e)
			return
		}
		wantEl, wantRest := ref[n-1], ref[:n-1]
		if method == "Shift" {
			wantEl, wantRest = ref[0], ref[1:]
		}
		verdict(e == nil && el == wantEl && reflect.DeepEqual(s.All(), append([]int{}, wantRest...)), "%s returned (%v, %v) and left %v; a sequence gives %v and %v", method, el, e, s.All(), wantEl, wantRest)
	case "Get", "Set":
		idx := in.n("index", 0)
		var el int
		var e error
		run(func() {
			if method == "Get" {
				el, e = s.Get(int(idx))
			} else {
				e = s.Set(int(idx), 7)
			}
		})
		if panicked != nil {
			verdict(false, "%s(%d) panicked on a container of %d: %v", method, idx, n, panicked)
			return
		}
		inRange := idx >= 0 && idx < n
		if !inRange {
			verdict(e != nil && reflect.DeepEqual(s.All(), append([]int{}, ref...)), "%s(%d) outside 0..%d returned error %v and left %v", method, idx, n, e, s.All())
			return
		}
		if method == "Get" {
			verdict(e == nil && el == ref[idx], "Get(%d) returned (%v, %v); a sequence gives %v", idx, el, e, ref[idx])
		} else {
			ref[idx] = 7
			verdict(e == nil && reflect.DeepEqual(s.All(), ref), "Set(%d) returned %v and left %v; a sequence gives %v", idx, e, s.All(), ref)
		}
	case "Slice":
		st, en := in.n("start", 0), in.n("end", 0)
		var got []int
		var e error
		run(func() { got, e = s.Slice(int(st), int(en)) })
		if panicked != nil {
			verdict(false, "Slice(%d, %d) panicked on a container of %d: %v", st, en, n, panicked)
			return
		}
		ok := st >= 0 && st <= en && en <= n
		if !ok {
			verdict(e != nil, "Slice(%d, %d) on a container of %d returned %v without an error", st, en, n, got)
			return
		}
		verdict(e == nil && reflect.DeepEqual(append([]int{}, got...), append([]int{}, ref[st:en]...)), "Slice(%d, %d) returned (%v, %v); a sequence gives %v", st, en, got, e, ref[st:en])
	case "Splice", "splice":
		st, dc := in.n("start", 0), in.n("deleteCount", 0)
		arg, snap := mkArg("insert.len", "insert.cap")
		var got []int
		var e error
		run(func() { got, e = s.Splice(int(st), int(dc), arg...) })
		if panicked != nil {
			verdict(false, "Splice(%d, %d, %d elements) panicked on a container of %d: %v", st, dc, len(arg), n, panicked)
			return
		}
		if !reflect.DeepEqual(arg[:cap(arg)], snap) {
			verdict(false, "Splice wrote into the caller's insert slice (spare capacity included): %v, was %v", arg[:cap(arg)], snap)
			return
		}
		if st < 0 || st > n || dc < 0 {
			verdict(e != nil && reflect.DeepEqual(s.All(), append([]int{}, ref...)), "Splice(%d, %d) with an invalid start or count returned (%v, %v) and left %v", st, dc, got, e, s.All())
			return
		}
		d := dc
		if st+d > n {
			d = n - st
		}
		wantRemoved := append([]int{}, ref[st:st+d]...)
		want := append(append(append([]int{}, ref[:st]...), arg...), ref[st+d:]...)
		verdict(e == nil && reflect.DeepEqual(append([]int{}, got...), wantRemoved) && reflect.DeepEqual(s.All(), want), "Splice(%d, %d, %d elements) on %d elements returned (%v, %v) and left %v; a sequence gives %v and %v", st, dc, len(arg), n, got, e, s.All(), wantRemoved, want)
	case "All", "all", "AllAndClear", "Clear", "clear", "Len":
		var got []int
		run(func() {
			switch method {
			case "AllAndClear":
				got = s.AllAndClear()
			case "Clear", "clear":
				s.Clear()
				got = ref
			default:
				got = s.All()
			}
		})
		if panicked != nil {
			verdict(false, "%s panicked: %v", method, panicked)
			return
		}
		wantLeft := ref
		if method == "AllAndClear" || method == "Clear" || method == "clear" {
			wantLeft = []int{}
		}
		verdict(reflect.DeepEqual(append([]int{}, got...), append([]int{}, ref...)) && reflect.DeepEqual(s.All(), append([]int{}, wantLeft...)), "%s returned %v and left %v; a sequence gives %v and %v", method, got, s.All(), ref, wantLeft)
	default:
		fmt.Printf("REPLAY-NOT-REPLAYABLE: no replay for method %s\n", method)
	}
}
