package engine

import "testing"

// C05: the engine path is "/engine.io/" by default, with or without attach options.
func TestComputePathNilOptions(t *testing.T) {
	bs := &baseServer{}
	if got := bs.ComputePath(nil); got != "/engine.io/" {
		t.Fatalf("ComputePath(nil) = %q, want %q", got, "/engine.io/")
	}
}
