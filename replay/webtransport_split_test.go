package webtransport

// Reproductions on the real code (go test -overlay) of the recorded C13 findings: a message written through the streaming
// writer, the large-write fast path or the reader-fed path leaves the connection as SEVERAL frames once it exceeds the
// write buffer, and the later frames carry the binary bit. Each test FAILS on the current code; that is the finding.

import (
	"bytes"
	"fmt"
	"io"
	"testing"
	"time"

	wt "github.com/zishang520/webtransport-go"
)

type splitRec struct {
	wt.Stream
	buf bytes.Buffer
}

func (s *splitRec) Write(p []byte) (int, error)        { return s.buf.Write(p) }
func (s *splitRec) SetWriteDeadline(t time.Time) error { return nil }

// frames decodes the recorded bytes with a reference decoder and lists "kind:length" per frame.
func (s *splitRec) frames() []string {
	b := s.buf.Bytes()
	var out []string
	for len(b) > 0 {
		kind := "text"
		if b[0]&0x80 != 0 {
			kind = "binary"
		}
		n, h := int(b[0]&0x7f), 1
		switch n {
		case 126:
			n, h = int(b[1])<<8|int(b[2]), 3
		case 127:
			n = 0
			for k := 1; k <= 8; k++ {
				n = n<<8 | int(b[k])
			}
			h = 9
		}
		out = append(out, fmt.Sprintf("%s:%d", kind, n))
		b = b[h+n:]
	}
	return out
}

func TestSplitAboveBuffer(t *testing.T) {
	rec := &splitRec{}
	c := NewConn(nil, rec, false, 0, 0, nil, nil, nil)
	w, err := c.NextWriter(TextMessage)
	if err != nil {
		t.Fatal(err)
	}
	w.Write(make([]byte, 4097))
	w.Close()
	if f := rec.frames(); len(f) != 1 || f[0] != "text:4097" {
		t.Fatalf("4097 bytes through NextWriter left as %v, want one frame [text:4097]", f)
	}
}

func TestLargeWriteFastPath(t *testing.T) {
	rec := &splitRec{}
	c := NewConn(nil, rec, true, 0, 0, nil, nil, nil)
	w, _ := c.NextWriter(TextMessage)
	w.Write(make([]byte, 3*4096))
	w.Close()
	if f := rec.frames(); len(f) != 1 || f[0] != "text:12288" {
		t.Fatalf("12288 bytes in one server-side Write left as %v, want one frame [text:12288]", f)
	}
}

func TestReadFromAboveBuffer(t *testing.T) {
	rec := &splitRec{}
	c := NewConn(nil, rec, true, 0, 0, nil, nil, nil)
	w, _ := c.NextWriter(TextMessage)
	io.Copy(w, bytes.NewReader(make([]byte, 9000)))
	w.Close()
	if f := rec.frames(); len(f) != 1 || f[0] != "text:9000" {
		t.Fatalf("9000 bytes copied from a reader left as %v, want one frame [text:9000]", f)
	}
}
