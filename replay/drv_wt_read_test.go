package webtransport

// Replay driver (injected with go test -overlay by govc; not part of the repository): rebuilds the inputs of the frame
// header decoder from a solver model, runs the REAL advanceFrame / setReadRemaining of the tree under check and compares
// with a reference decoder of the Engine.IO WebTransport frame format written from the format text alone.

import (
	"bufio"
	"bytes"
	"encoding/json"
	"fmt"
	"os"
	"strconv"
	"testing"
)

type govcReplayInput struct {
	Unit, Obligation, Tag, Clause string
	Values                        map[string]string
}

func govcLoadInput(t *testing.T) *govcReplayInput {
	b, err := os.ReadFile(os.Getenv("GOVC_REPLAY_INPUT"))
	if err != nil {
		t.Skip("no replay input")
	}
	var in govcReplayInput
	if err := json.Unmarshal(b, &in); err != nil {
		t.Fatalf("bad replay input: %v", err)
	}
	return &in
}

func (in *govcReplayInput) i64(key string, def int64) int64 {
	if v, ok := in.Values[key]; ok {
		if n, err := strconv.ParseInt(v, 10, 64); err == nil {
			return n
		}
		if u, err := strconv.ParseUint(v, 10, 64); err == nil {
			return int64(u)
		}
	}
	return def
}

func TestGovcReplayReader(t *testing.T) {
	in := govcLoadInput(t)
	switch {
	case bytes.Contains([]byte(in.Unit), []byte("setReadRemaining")):
		n := in.i64("n", 0)
		c := NewConn(nil, nil, true, 0, 0, nil, bufio.NewReader(bytes.NewReader(nil)), nil)
		before := in.i64("c.readRemaining", 0)
		c.readRemaining = before
		err := c.setReadRemaining(n)
		// reference: negative lengths are refused with ErrReadLimit and change nothing, others are stored
		if n < 0 {
			if err != ErrReadLimit || c.readRemaining != before {
				fmt.Printf("REPLAY-CONFIRMED: setReadRemaining(%d) returned %v and left readRemaining=%d; a negative length must be refused with ErrReadLimit and change nothing\n", n, err, c.readRemaining)
				return
			}
		} else if err != nil || c.readRemaining != n {
			fmt.Printf("REPLAY-CONFIRMED: setReadRemaining(%d) returned %v and left readRemaining=%d; expected nil and %d\n", n, err, c.readRemaining, n)
			return
		}
		fmt.Printf("REPLAY-NOT-REPRODUCED: setReadRemaining(%d) behaves as the reference on this input\n", n)
	default:
		rem := in.i64("c.readRemaining", 0)
		rlen := in.i64("c.readLength", 0)
		limit := in.i64("c.readLimit", 0)
		if rem < 0 || rem > 1<<16 {
			fmt.Printf("REPLAY-NOT-REPLAYABLE: the model's readRemaining=%d cannot be fed as a byte stream\n", rem)
			return
		}
		var hdr [9]byte
		for k := 0; k < 9; k++ {
			hdr[k] = byte(in.i64(fmt.Sprintf("let in_b%d#0", k), 0))
		}
		stream := append(make([]byte, rem), hdr[:]...)
		stream = append(stream, make([]byte, 64)...)
		c := NewConn(nil, nil, true, 0, 0, nil, bufio.NewReaderSize(bytes.NewReader(stream), 4096), nil)
		c.readRemaining, c.readLength, c.readLimit = rem, rlen, limit
		// reference decoder
		kind := int(hdr[0]>>7) + 1
		n7 := int64(hdr[0] & 0x7f)
		hl := int64(1)
		L := n7
		switch n7 {
		case 126:
			L = int64(hdr[1])<<8 | int64(hdr[2])
			hl = 3
		case 127:
			var u uint64
			for k := 1; k <= 8; k++ {
				u = u<<8 | uint64(hdr[k])
			}
			L = int64(u)
			hl = 9
		}
		wantErr := L < 0
		newLen := rlen + L
		if !wantErr && (newLen < 0 || (limit > 0 && newLen > limit)) {
			wantErr = true
		}
		var ft int
		var err error
		panicked := any(nil)
		func() {
			defer func() { panicked = recover() }()
			ft, err = c.advanceFrame()
		}()
		if panicked != nil {
			// the limit path closes the (absent) session: a nil-session panic inside CloseWithError stands for "closed with error"
			if wantErr {
				fmt.Printf("REPLAY-NOT-REPRODUCED: limit path taken as expected (session close reached)\n")
				return
			}
			fmt.Printf("REPLAY-CONFIRMED: advanceFrame panicked (%v) on header % x with readRemaining=%d readLength=%d readLimit=%d; the reference accepts this frame (kind %d, length %d)\n", panicked, hdr[:hl], rem, rlen, limit, kind, L)
			return
		}
		if wantErr {
			if err == nil {
				fmt.Printf("REPLAY-CONFIRMED: advanceFrame accepted header % x (declared length %d, readLength %d, limit %d) as frame type %d; the reference refuses it\n", hdr[:hl], L, rlen, limit, ft)
				return
			}
			fmt.Printf("REPLAY-NOT-REPRODUCED: refused as the reference expects (%v)\n", err)
			return
		}
		if err != nil {
			fmt.Printf("REPLAY-CONFIRMED: advanceFrame refused header % x with %v; the reference accepts it (kind %d, length %d, readLength %d, limit %d)\n", hdr[:hl], err, kind, L, rlen, limit)
			return
		}
		if ft != kind || c.readRemaining != L || c.readLength != newLen {
			fmt.Printf("REPLAY-CONFIRMED: advanceFrame on header % x returned kind %d, readRemaining %d, readLength %d; the reference decoder gives kind %d, length %d, readLength %d\n", hdr[:hl], ft, c.readRemaining, c.readLength, kind, L, newLen)
			return
		}
		// position: the next byte the reader yields must be the first byte after the header
		fmt.Printf("REPLAY-NOT-REPRODUCED: advanceFrame agrees with the reference decoder on this input (kind %d, length %d)\n", kind, L)
	}
}
