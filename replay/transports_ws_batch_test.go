package transports

// Reproduction on the real code (injected with go test -overlay, see run_overlay.sh):
// a batch whose first packet carries a pre-encoded frame must still deliver the packets after it.

import (
	"net/http"
	"net/http/httptest"
	"strings"
	"testing"
	"time"

	ws "github.com/gorilla/websocket"
	"github.com/zishang520/engine.io-go-parser/packet"
	"github.com/zishang520/engine.io/v2/events"
	"github.com/zishang520/engine.io/v2/types"
)

func TestWsBatchAfterPreEncodedFrame(t *testing.T) {
	done := make(chan struct{})
	srv := httptest.NewServer(http.HandlerFunc(func(rw http.ResponseWriter, r *http.Request) {
		up := ws.Upgrader{}
		conn, err := up.Upgrade(rw, r, nil)
		if err != nil {
			t.Errorf("upgrade: %v", err)
			return
		}
		ctx := types.NewHttpContext(rw, r)
		ctx.Websocket = &types.WebSocketConn{EventEmitter: events.New(), Conn: conn}
		tr := NewWebSocket(ctx).(*websocket)
		tr.send([]*packet.Packet{
			{Type: packet.MESSAGE, Data: strings.NewReader("first"), Options: &packet.Options{WsPreEncodedFrame: types.NewStringBufferString("4first")}},
			{Type: packet.MESSAGE, Data: strings.NewReader("second")},
			{Type: packet.MESSAGE, Data: strings.NewReader("third")},
		})
		<-done
	}))
	defer srv.Close()
	defer close(done)
	c, _, err := ws.DefaultDialer.Dial("ws"+strings.TrimPrefix(srv.URL, "http")+"/?EIO=4&transport=websocket", nil)
	if err != nil {
		t.Fatal(err)
	}
	defer c.Close()
	var got []string
	for i := 0; i < 3; i++ {
		c.SetReadDeadline(time.Now().Add(2 * time.Second))
		_, b, err := c.ReadMessage()
		if err != nil {
			break
		}
		got = append(got, string(b))
	}
	want := []string{"4first", "4second", "4third"}
	if strings.Join(got, ",") != strings.Join(want, ",") {
		t.Fatalf("client received %q, want %q: the packets after the pre-encoded one were dropped", got, want)
	}
}
