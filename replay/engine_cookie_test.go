package engine

// Reproduction on the real code (go test -overlay): with a cookie configured, exactly the handshake response of a session
// carries Set-Cookie, its value is the session id, and initial_headers fires once per session.

import (
	"encoding/json"
	"io"
	"net/http"
	"net/http/httptest"
	"strings"
	"sync/atomic"
	"testing"
	"time"

	"github.com/zishang520/engine.io/v2/config"
	"github.com/zishang520/engine.io/v2/types"
)

func TestCookieOnlyOnHandshakeAndCarriesSid(t *testing.T) {
	opts := config.DefaultServerOptions()
	opts.SetCookie(&http.Cookie{Name: "io"})
	srv := NewServer(opts)
	var initial atomic.Int32
	srv.On("initial_headers", func(...any) { initial.Add(1) })
	ts := httptest.NewServer(http.HandlerFunc(func(w http.ResponseWriter, r *http.Request) {
		srv.HandleRequest(types.NewHttpContext(w, r))
	}))
	defer ts.Close()
	cl := &http.Client{Timeout: 5 * time.Second}
	resp, err := cl.Get(ts.URL + "/engine.io/?EIO=4&transport=polling")
	if err != nil {
		t.Fatal(err)
	}
	body, _ := io.ReadAll(resp.Body)
	resp.Body.Close()
	var open struct{ Sid string }
	if err := json.Unmarshal(body[1:], &open); err != nil || open.Sid == "" {
		t.Fatalf("no open packet: %q", body)
	}
	sc := resp.Header.Get("Set-Cookie")
	if !strings.HasPrefix(sc, "io="+open.Sid) {
		t.Errorf("handshake Set-Cookie = %q, want value %q (the session id)", sc, open.Sid)
	}
	// a data request of the same session must not set the cookie again nor fire initial_headers
	resp2, err := cl.Post(ts.URL+"/engine.io/?EIO=4&transport=polling&sid="+open.Sid, "text/plain", strings.NewReader("4hello"))
	if err != nil {
		t.Fatal(err)
	}
	io.ReadAll(resp2.Body)
	resp2.Body.Close()
	if sc2 := resp2.Header.Get("Set-Cookie"); sc2 != "" {
		t.Errorf("data request response carries Set-Cookie %q: only the handshake response may", sc2)
	}
	if n := initial.Load(); n != 1 {
		t.Errorf("initial_headers fired %d times for one session, want 1", n)
	}
}
