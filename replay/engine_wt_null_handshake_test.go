package engine

// Reproduction: a WebTransport client whose first message is the Engine.IO packet `0null`
// (type "0" = OPEN, data = the JSON document `null`) makes (*server).OnWebTransportSession
// dereference a nil pointer:
//
//	var wth *struct{ Sid string `json:"sid"` }
//	if json.NewDecoder(value.Data).Decode(&wth) != nil { ... }   // Decode("null") succeeds, wth stays nil
//	if len(wth.Sid) == 0 {                                       // <- nil pointer dereference
//
// The test drives the real code end to end: a real engine.io server is started over QUIC/HTTP3 on
// 127.0.0.1 with the library's own types.HttpServer.ListenWebTransportTLS and wired as in the README
// (handler calls engineServer.OnWebTransportSession), and a real webtransport-go client dials it.
//
// The server + client exchange runs in a child process (re-exec of the test binary) so that a panic
// cannot be missed whichever way it surfaces: if nothing recovers it the child dies with "panic:", if
// quic-go's http3 server recovers it (it does: "http3: panic serving") the text is in the child's
// stderr. The parent asserts on the child's output.
//
// Expected behaviour (and the behaviour after adding `|| wth == nil` to the Decode error test): the
// server answers the `0null` handshake by closing the session with error code 400 "Bad request", and a
// following well-formed handshake (`0`) on a fresh session is answered with an open packet.

import (
	"bytes"
	"context"
	"crypto/ecdsa"
	"crypto/elliptic"
	"crypto/rand"
	"crypto/tls"
	"crypto/x509"
	"crypto/x509/pkix"
	"encoding/pem"
	"errors"
	"fmt"
	"io"
	"log/slog"
	"math/big"
	"net"
	"net/http"
	"os"
	"os/exec"
	"path/filepath"
	"strings"
	"sync"
	"testing"
	"time"

	"github.com/quic-go/quic-go"
	"github.com/zishang520/engine.io/v2/config"
	"github.com/zishang520/engine.io/v2/types"
	webtrans "github.com/zishang520/engine.io/v2/webtransport"
	wtgo "github.com/zishang520/webtransport-go"
)

const reproWTChildEnv = "REPRO_WT_NULL_CHILD"

// markers printed by the child on stdout
const (
	reproWTMarkNullRejected = "CHILD-RESULT null-handshake: session closed by server code=400"
	reproWTMarkLivenessOK   = "CHILD-RESULT liveness: ok"
	reproWTMarkDone         = "CHILD-DONE"
)

func TestReproWebTransportNullHandshake(t *testing.T) {
	if os.Getenv(reproWTChildEnv) == "1" {
		reproWTChild()
		return
	}

	ctx, cancel := context.WithTimeout(context.Background(), 50*time.Second)
	defer cancel()

	cmd := exec.CommandContext(ctx, os.Args[0], "-test.run=^TestReproWebTransportNullHandshake$", "-test.count=1", "-test.timeout=45s")
	cmd.Env = append(os.Environ(), reproWTChildEnv+"=1")
	var out bytes.Buffer
	cmd.Stdout = &out
	cmd.Stderr = &out
	runErr := cmd.Run()
	output := out.String()
	t.Logf("child exit: %v\n----- child output -----\n%s\n------------------------", runErr, output)

	if strings.Contains(output, "CHILD-SKIP") {
		t.Skipf("QUIC over loopback is not usable in this environment")
	}

	panicked := false
	for _, needle := range []string{"panic serving", "nil pointer dereference", "panic:"} {
		if strings.Contains(output, needle) {
			panicked = true
			t.Errorf("server panicked on client input: child output contains %q", needle)
		}
	}
	if panicked {
		t.Errorf("the WebTransport handshake message `0null` made (*server).OnWebTransportSession dereference a nil pointer (wth == nil after a successful json Decode of `null`)")
	}
	if !strings.Contains(output, reproWTMarkNullRejected) {
		t.Errorf("the server did not reject the `0null` handshake by closing the session with code 400 (marker %q missing)", reproWTMarkNullRejected)
	}
	if !strings.Contains(output, reproWTMarkLivenessOK) {
		t.Errorf("the server did not answer a following well-formed handshake (marker %q missing)", reproWTMarkLivenessOK)
	}
	if !strings.Contains(output, reproWTMarkDone) {
		t.Errorf("child did not run to completion")
	}
	if runErr != nil {
		t.Errorf("child process failed: %v", runErr)
	}
}

// panicWatch tees everything written to it to stderr and signals the first time a recovered handler
// panic is logged by the http3 server.
type panicWatch struct {
	mu   sync.Mutex
	buf  bytes.Buffer
	once sync.Once
	seen chan struct{}
}

func (w *panicWatch) Write(p []byte) (int, error) {
	w.mu.Lock()
	w.buf.Write(p)
	hit := bytes.Contains(w.buf.Bytes(), []byte("panic serving"))
	w.mu.Unlock()
	os.Stderr.Write(p)
	if hit {
		w.once.Do(func() { close(w.seen) })
	}
	return len(p), nil
}

func reproWTFail(format string, args ...any) {
	fmt.Printf("CHILD-FAIL "+format+"\n", args...)
}

// reproWTChild runs the real server and the real client. It never calls t.Fatal: it reports on stdout and
// the parent decides.
func reproWTChild() {
	// The http3 server logs a recovered handler panic through slog.Default() (H3.Logger is nil).
	watch := &panicWatch{seen: make(chan struct{})}
	slog.SetDefault(slog.New(slog.NewTextHandler(watch, nil)))

	dir, err := os.MkdirTemp("", "repro-wt-null")
	if err != nil {
		reproWTFail("tempdir: %v", err)
		return
	}
	defer os.RemoveAll(dir)
	certFile, keyFile, err := reproWTWriteCert(dir)
	if err != nil {
		reproWTFail("cert: %v", err)
		return
	}

	// pick a free UDP port on loopback
	probe, err := net.ListenUDP("udp", &net.UDPAddr{IP: net.IPv4(127, 0, 0, 1), Port: 0})
	if err != nil {
		fmt.Printf("CHILD-SKIP cannot open a UDP socket on 127.0.0.1: %v\n", err)
		return
	}
	port := probe.LocalAddr().(*net.UDPAddr).Port
	probe.Close()
	addr := fmt.Sprintf("127.0.0.1:%d", port)

	// ---- the real server, wired as in the README ("Passing in requests (WebTransport)") ----
	serverOptions := &config.ServerOptions{}
	serverOptions.SetTransports(types.NewSet("polling", "websocket", "webtransport"))
	serverOptions.SetUpgradeTimeout(20 * time.Second)

	httpServer := types.NewWebServer(nil)
	wts := httpServer.ListenWebTransportTLS(addr, certFile, keyFile, nil, nil)
	engineServer := New(serverOptions)
	httpServer.HandleFunc("/engine.io/", func(w http.ResponseWriter, r *http.Request) {
		if webtrans.IsWebTransportUpgrade(r) {
			engineServer.OnWebTransportSession(types.NewHttpContext(w, r), wts)
		} else {
			engineServer.HandleRequest(types.NewHttpContext(w, r))
		}
	})
	defer httpServer.Close(nil)

	url := "https://" + addr + "/engine.io/"

	// ---- exchange 1: the `0null` handshake ----
	sess, str, err := reproWTDial(url)
	if err != nil {
		fmt.Printf("CHILD-SKIP cannot establish a WebTransport session over loopback QUIC: %v\n", err)
		return
	}
	fmt.Println("CHILD-INFO session 1 established, sending text message `0null`")
	// Engine.IO WebTransport framing (webtransport/conn.go): one header byte, high bit 0 = text,
	// low 7 bits = payload length (< 126), then the payload.
	payload := "0null"
	if _, err := str.Write(append([]byte{byte(len(payload))}, payload...)); err != nil {
		reproWTFail("write 0null: %v", err)
		return
	}

	select {
	case <-sess.Context().Done():
		_, cerr := sess.AcceptStream(context.Background())
		var se *wtgo.SessionError
		if errors.As(cerr, &se) {
			fmt.Printf("CHILD-INFO session 1 closed: remote=%v code=%d message=%q\n", se.Remote, se.ErrorCode, se.Message)
			if se.Remote && se.ErrorCode == 400 {
				fmt.Println(reproWTMarkNullRejected)
			}
		} else {
			fmt.Printf("CHILD-INFO session 1 closed with %T %v\n", cerr, cerr)
		}
	case <-watch.seen:
		fmt.Println("CHILD-RESULT null-handshake: the http3 server logged a recovered handler panic; session 1 was left open")
	case <-time.After(15 * time.Second):
		fmt.Println("CHILD-RESULT null-handshake: no answer from the server within 15s")
	}
	// give a panic log that races with the session close a moment to be written
	select {
	case <-watch.seen:
	case <-time.After(300 * time.Millisecond):
	}
	sess.CloseWithError(0, "")

	// ---- exchange 2: liveness, a well-formed handshake (`0`, no data) on a fresh session ----
	sess2, str2, err := reproWTDial(url)
	if err != nil {
		reproWTFail("liveness dial: %v", err)
		return
	}
	if _, err := str2.Write([]byte{1, '0'}); err != nil {
		reproWTFail("liveness write: %v", err)
		return
	}
	type rd struct {
		msg string
		err error
	}
	ch := make(chan rd, 1)
	go func() {
		// read one frame: header byte (text, len < 126 or 126 + 2 bytes), payload
		hdr := make([]byte, 1)
		if _, err := io.ReadFull(str2, hdr); err != nil {
			ch <- rd{err: err}
			return
		}
		n := int(hdr[0] & 0x7f)
		if n == 126 {
			l := make([]byte, 2)
			if _, err := io.ReadFull(str2, l); err != nil {
				ch <- rd{err: err}
				return
			}
			n = int(l[0])<<8 | int(l[1])
		}
		p := make([]byte, n)
		_, err := io.ReadFull(str2, p)
		ch <- rd{msg: string(p), err: err}
	}()
	select {
	case r := <-ch:
		fmt.Printf("CHILD-INFO liveness answer: %q err=%v\n", r.msg, r.err)
		if r.err == nil && strings.HasPrefix(r.msg, "0{") && strings.Contains(r.msg, `"sid":"`) {
			fmt.Println(reproWTMarkLivenessOK)
		}
	case <-time.After(10 * time.Second):
		fmt.Println("CHILD-RESULT liveness: no answer within 10s")
	}
	sess2.CloseWithError(0, "")
	time.Sleep(100 * time.Millisecond)
	fmt.Println(reproWTMarkDone)
}

func reproWTDial(url string) (*wtgo.Session, wtgo.Stream, error) {
	var lastErr error
	// the listener is started in a goroutine by ListenWebTransportTLS: retry until it is up
	for i := 0; i < 10; i++ {
		d := &wtgo.Dialer{
			TLSClientConfig: &tls.Config{InsecureSkipVerify: true},
			QUICConfig:      &quic.Config{EnableDatagrams: true, HandshakeIdleTimeout: 2 * time.Second},
		}
		// the contexts are deliberately not cancelled on success: they live as long as the child
		rsp, sess, err := d.Dial(context.Background(), url, nil)
		if err == nil && rsp.StatusCode/100 == 2 {
			octx, cancel := context.WithTimeout(context.Background(), 5*time.Second)
			str, err := sess.OpenStreamSync(octx)
			cancel()
			if err != nil {
				return nil, nil, err
			}
			return sess, str, nil
		}
		if err == nil {
			err = fmt.Errorf("status %d", rsp.StatusCode)
		}
		lastErr = err
		time.Sleep(200 * time.Millisecond)
	}
	return nil, nil, lastErr
}

func reproWTWriteCert(dir string) (certFile, keyFile string, err error) {
	key, err := ecdsa.GenerateKey(elliptic.P256(), rand.Reader)
	if err != nil {
		return "", "", err
	}
	tmpl := &x509.Certificate{
		SerialNumber:          big.NewInt(1),
		Subject:               pkix.Name{CommonName: "127.0.0.1"},
		NotBefore:             time.Now().Add(-time.Hour),
		NotAfter:              time.Now().Add(24 * time.Hour),
		KeyUsage:              x509.KeyUsageDigitalSignature,
		ExtKeyUsage:           []x509.ExtKeyUsage{x509.ExtKeyUsageServerAuth},
		BasicConstraintsValid: true,
		IPAddresses:           []net.IP{net.IPv4(127, 0, 0, 1)},
		DNSNames:              []string{"localhost"},
	}
	der, err := x509.CreateCertificate(rand.Reader, tmpl, tmpl, &key.PublicKey, key)
	if err != nil {
		return "", "", err
	}
	keyDER, err := x509.MarshalECPrivateKey(key)
	if err != nil {
		return "", "", err
	}
	certFile = filepath.Join(dir, "server.crt")
	keyFile = filepath.Join(dir, "server.key")
	if err = os.WriteFile(certFile, pem.EncodeToMemory(&pem.Block{Type: "CERTIFICATE", Bytes: der}), 0o600); err != nil {
		return "", "", err
	}
	if err = os.WriteFile(keyFile, pem.EncodeToMemory(&pem.Block{Type: "EC PRIVATE KEY", Bytes: keyDER}), 0o600); err != nil {
		return "", "", err
	}
	return certFile, keyFile, nil
}
