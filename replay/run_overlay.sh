#!/bin/bash
# usage: run_overlay.sh <repo> <pkg-dir-relative> <test-file> <run-regex>
# injects the test file into the package with go test -overlay (nothing is written to the repository)
repo=$1; pkg=$2; file=$3; run=$4
T=$(mktemp -d ${TMPDIR:-/var/tmp}/ovl-XXXXXX)
trap "rm -rf $T" EXIT
base=$(basename $file)
printf '{"Replace":{"%s/%s/zz_%s":"%s"}}' "$repo" "$pkg" "$base" "$(readlink -f $file)" > $T/ov.json
cd $repo && GOFLAGS=-mod=mod GOPROXY=off go test -overlay $T/ov.json -vet=off -count=1 -timeout 60s -run "$run" ./$pkg/ 2>&1
