package engine

// Reproduction on the real code (go test -overlay) of the recorded C18 finding: flush emits its events while holding
// flushMu, so a listener of the session's "flush" (or "drain") event that sends on the same session never returns.
// The test FAILS on the current code; that is the finding.

import (
	"io"
	"net/http"
	"net/http/httptest"
	"strings"
	"testing"
	"time"

	"github.com/zishang520/engine.io/v2/config"
	"github.com/zishang520/engine.io/v2/types"
)

func TestSendFromFlushListenerDeadlocks(t *testing.T) {
	srv := NewServer(config.DefaultServerOptions())
	done := make(chan struct{})
	srv.On("connection", func(a ...any) {
		s := a[0].(Socket)
		once := false
		s.On("flush", func(...any) {
			if !once {
				once = true
				s.Send(strings.NewReader("from the flush listener"), nil, nil)
				close(done)
			}
		})
		go s.Send(strings.NewReader("first"), nil, nil)
	})
	ts := httptest.NewServer(http.HandlerFunc(func(w http.ResponseWriter, r *http.Request) {
		srv.HandleRequest(types.NewHttpContext(w, r))
	}))
	// (the server is not closed when the deadlock is reproduced: its handler never returns)
	resp, err := http.Get(ts.URL + "/engine.io/?EIO=4&transport=polling")
	if err != nil {
		t.Fatal(err)
	}
	body, _ := io.ReadAll(resp.Body)
	resp.Body.Close()
	sid := string(body[strings.Index(string(body), `"sid":"`)+7:])
	sid = sid[:strings.Index(sid, `"`)]
	go func() {
		r, err := http.Get(ts.URL + "/engine.io/?EIO=4&transport=polling&sid=" + sid)
		if err == nil {
			io.ReadAll(r.Body)
			r.Body.Close()
		}
	}()
	select {
	case <-done:
		ts.Close()
	case <-time.After(3 * time.Second):
		t.Fatal("a listener of the session's flush event that sends on the session never returned: flush holds flushMu while it emits (self-deadlock)")
	}
}
