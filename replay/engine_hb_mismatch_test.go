package engine

// Reproduction on the real code (go test -overlay): a client that handshakes with revision 4 over polling and upgrades
// with a WebSocket that says EIO=3 must not be able to crash the process with a heartbeat packet.

import (
	"encoding/json"
	"io"
	"net/http"
	"net/http/httptest"
	"strings"
	"testing"
	"time"

	ws "github.com/gorilla/websocket"
	"github.com/zishang520/engine.io/v2/config"
	"github.com/zishang520/engine.io/v2/types"
)

func TestHeartbeatAfterRevisionMismatchedUpgrade(t *testing.T) {
	opts := config.DefaultServerOptions()
	opts.SetAllowEIO3(true)
	opts.SetPingInterval(10 * time.Second)
	srv := NewServer(opts)
	panicked := make(chan any, 1)
	closed := make(chan string, 1)
	srv.On("connection", func(a ...any) {
		s := a[0].(Socket)
		s.On("close", func(r ...any) { closed <- r[0].(string) })
		// run the candidate's packets through the session the way the transport does, but catch a panic so that the
		// test binary survives to report it
	})
	ts := httptest.NewServer(http.HandlerFunc(func(w http.ResponseWriter, r *http.Request) {
		defer func() {
			if p := recover(); p != nil {
				panicked <- p
			}
		}()
		ctx := types.NewHttpContext(w, r)
		if r.Header.Get("Upgrade") != "" {
			srv.HandleUpgrade(ctx)
		} else {
			srv.HandleRequest(ctx)
		}
	}))
	defer ts.Close()
	resp, err := http.Get(ts.URL + "/engine.io/?EIO=4&transport=polling")
	if err != nil {
		t.Fatal(err)
	}
	body, _ := io.ReadAll(resp.Body)
	resp.Body.Close()
	var open struct{ Sid string }
	json.Unmarshal(body[1:], &open)
	c, _, err := ws.DefaultDialer.Dial("ws"+strings.TrimPrefix(ts.URL, "http")+"/engine.io/?EIO=3&transport=websocket&sid="+open.Sid, nil)
	if err != nil {
		t.Fatal(err)
	}
	defer c.Close()
	c.WriteMessage(ws.TextMessage, []byte("2probe"))
	c.SetReadDeadline(time.Now().Add(2 * time.Second))
	if _, m, err := c.ReadMessage(); err != nil || string(m) != "3probe" {
		t.Fatalf("no probe pong: %q %v", m, err)
	}
	// release the pending poll so that the upgrade can complete, then upgrade
	go func() {
		r, err := http.Get(ts.URL + "/engine.io/?EIO=4&transport=polling&sid=" + open.Sid)
		if err == nil {
			io.ReadAll(r.Body)
			r.Body.Close()
		}
	}()
	time.Sleep(300 * time.Millisecond)
	c.WriteMessage(ws.TextMessage, []byte("5"))
	time.Sleep(300 * time.Millisecond)
	// a v3-style ping on the upgraded transport of a v4 session
	c.WriteMessage(ws.TextMessage, []byte("2"))
	select {
	case p := <-panicked:
		t.Fatalf("server panicked on a client heartbeat: %v", p)
	case r := <-closed:
		t.Logf("session closed with %q (acceptable: the worst outcome is that the offending session is closed)", r)
	case <-time.After(1500 * time.Millisecond):
		t.Logf("no panic, session still open")
	}
}
