package types

import "testing"

// Reproductions of the C20 storage-sharing and panic defects on the real code (run with go test -overlay).

func TestUnshiftSharesCallerStorage(t *testing.T) {
	buf := make([]int, 1, 8)
	buf[0] = 1
	s := NewSlice[int]()
	s.Unshift(buf...)
	buf[0] = 99 // caller reuses its buffer
	if v, _ := s.Get(0); v != 1 {
		t.Fatalf("container element changed through the caller's slice: got %d, want 1", v)
	}
}

func TestUnshiftWritesCallerSpareCapacity(t *testing.T) {
	backing := []int{1, 2, 3, 4}
	arg := backing[:1] // spare capacity holds 2,3,4 which belong to the caller
	s := NewSlice[int](7, 8)
	s.Unshift(arg...)
	if backing[1] != 2 || backing[2] != 3 {
		t.Fatalf("caller's backing array was overwritten: %v", backing)
	}
}

func TestSpliceWritesCallerSpareCapacity(t *testing.T) {
	backing := []int{10, 20, 30, 40}
	ins := backing[:1]
	s := NewSlice[int](1, 2, 3)
	if _, err := s.Splice(1, 0, ins...); err != nil {
		t.Fatal(err)
	}
	if backing[1] != 20 || backing[2] != 30 {
		t.Fatalf("caller's backing array was overwritten: %v", backing)
	}
}

func TestSpliceNegativeCount(t *testing.T) {
	defer func() {
		if r := recover(); r != nil {
			t.Fatalf("Splice with a negative count panicked: %v", r)
		}
	}()
	s := NewSlice[int](1, 2, 3)
	s.Splice(1, -1)
}
