package webtransport

// Replay driver for the write side: runs the REAL WriteMessage of the tree under check on a connection whose stream
// records what is written, and compares the bytes with a reference encoder of the Engine.IO WebTransport frame format
// (one frame per message: header byte with the binary bit and a 7-bit length or 126/127 marker, big-endian extended
// length, payload).

import (
	"bytes"
	"fmt"
	"strings"
	"testing"
	"time"

	wt "github.com/zishang520/webtransport-go"
)

type govcRecStream struct {
	wt.Stream
	buf    bytes.Buffer
	writes int
}

func (s *govcRecStream) Write(p []byte) (int, error)        { s.writes++; return s.buf.Write(p) }
func (s *govcRecStream) SetWriteDeadline(t time.Time) error { return nil }

func govcRefFrame(kind int, payload []byte) []byte {
	var h []byte
	b0 := byte(0)
	if kind == BinaryMessage {
		b0 = 0x80
	}
	n := len(payload)
	switch {
	case n < 126:
		h = []byte{b0 | byte(n)}
	case n < 65536:
		h = []byte{b0 | 126, byte(n >> 8), byte(n)}
	default:
		h = []byte{b0 | 127, byte(n >> 56), byte(n >> 48), byte(n >> 40), byte(n >> 32), byte(n >> 24), byte(n >> 16), byte(n >> 8), byte(n)}
	}
	return append(h, payload...)
}

func TestGovcReplayWriter(t *testing.T) {
	in := govcLoadInput(t)
	kind := TextMessage
	var L int64
	isServer := true
	switch {
	case strings.Contains(in.Unit, "WriteMessage"):
		kind = int(in.i64("messageType", TextMessage))
		L = in.i64("data.len", 0)
		isServer = in.Values["c.isServer"] != "false"
	default: // flushFrame, Close, write: the frame about to leave has kind w.frameType and length pos-9+len(extra)
		kind = int(in.i64("w.frameType", TextMessage))
		L = in.i64("w.pos", 9) - 9 + in.i64("extra.len", 0)
	}
	if kind != TextMessage && kind != BinaryMessage {
		fmt.Printf("REPLAY-NOT-REPLAYABLE: message kind %d is outside the API's domain\n", kind)
		return
	}
	if L < 0 || L > 1<<24 {
		fmt.Printf("REPLAY-NOT-REPLAYABLE: payload length %d\n", L)
		return
	}
	payload := make([]byte, L)
	for i := range payload {
		payload[i] = byte(i*7 + 3)
	}
	rec := &govcRecStream{}
	c := NewConn(nil, rec, isServer, 0, 0, nil, nil, nil)
	if err := c.WriteMessage(kind, payload); err != nil {
		fmt.Printf("REPLAY-CONFIRMED: WriteMessage(kind %d, %d bytes) failed with %v on a healthy stream\n", kind, L, err)
		return
	}
	want := govcRefFrame(kind, payload)
	got := rec.buf.Bytes()
	if !bytes.Equal(got, want) {
		n := len(got)
		if n > 12 {
			n = 12
		}
		m := len(want)
		if m > 12 {
			m = 12
		}
		fmt.Printf("REPLAY-CONFIRMED: WriteMessage(kind %d, %d bytes, server=%v) put %d bytes on the stream starting % x; the format requires one frame of %d bytes starting % x\n", kind, L, isServer, len(got), got[:n], len(want), want[:m])
		return
	}
	fmt.Printf("REPLAY-NOT-REPRODUCED: WriteMessage(kind %d, %d bytes, server=%v) emits exactly the reference frame\n", kind, L, isServer)
}
