package engine

// Reproduction on the real code (go test -overlay): a poll response labelled "Content-Encoding: deflate" must decode
// with the HTTP deflate coding, i.e. the zlib format (RFC 9110 8.4.1.2), to the payload.

import (
	"bytes"
	"compress/zlib"
	"io"
	"net/http"
	"net/http/httptest"
	"strings"
	"testing"
	"time"

	"github.com/zishang520/engine.io/v2/config"
	"github.com/zishang520/engine.io/v2/types"
)

func TestDeflateIsZlib(t *testing.T) {
	opts := config.DefaultServerOptions()
	opts.SetHttpCompression(&types.HttpCompression{Threshold: 1})
	srv := NewServer(opts)
	ts := httptest.NewServer(http.HandlerFunc(func(w http.ResponseWriter, r *http.Request) {
		srv.HandleRequest(types.NewHttpContext(w, r))
	}))
	defer ts.Close()
	req, _ := http.NewRequest("GET", ts.URL+"/engine.io/?EIO=4&transport=polling", nil)
	req.Header.Set("Accept-Encoding", "deflate")
	tr := &http.Transport{DisableCompression: true}
	cl := &http.Client{Transport: tr, Timeout: 5 * time.Second}
	resp, err := cl.Do(req)
	if err != nil {
		t.Fatal(err)
	}
	defer resp.Body.Close()
	body, _ := io.ReadAll(resp.Body)
	if ce := resp.Header.Get("Content-Encoding"); ce != "deflate" {
		t.Skipf("response not compressed (Content-Encoding %q)", ce)
	}
	zr, err := zlib.NewReader(bytes.NewReader(body))
	if err != nil {
		t.Fatalf("body labelled Content-Encoding: deflate is not in the zlib format: %v", err)
	}
	plain, err := io.ReadAll(zr)
	if err != nil {
		t.Fatalf("zlib decoding failed: %v", err)
	}
	if !strings.HasPrefix(string(plain), "0{") {
		t.Fatalf("decoded payload %q is not an open packet", plain)
	}
}
