package main

import (
	"flag"
	"fmt"
	"os"
	"strings"

	"govc/internal/check"
	"govc/internal/load"
	"govc/internal/vc"

	"golang.org/x/tools/go/ssa"
)

func usage() {
	fmt.Fprintln(os.Stderr, `usage:
  govc dump  <repo> <pkg> <func-substr>
  govc check -repo DIR -specs DIR -prop Cnn -tier quick|thorough [-evidence FILE] [-replays DIR] [-known FILE] [-unit SUBSTR] [-v]
  govc list  -repo DIR -specs DIR`)
	os.Exit(2)
}

func main() {
	if len(os.Args) < 2 {
		usage()
	}
	switch os.Args[1] {
	case "dump":
		dump(os.Args[2:])
	case "check":
		fs := flag.NewFlagSet("check", flag.ExitOnError)
		var o check.Options
		fs.StringVar(&o.Repo, "repo", "/repo", "repository")
		fs.StringVar(&o.Specs, "specs", "/verif/specs", "external spec directory")
		fs.StringVar(&o.Prop, "prop", "", "property id")
		fs.StringVar(&o.Tier, "tier", "quick", "quick|thorough")
		fs.StringVar(&o.Evidence, "evidence", "", "evidence file to write")
		fs.StringVar(&o.Replays, "replays", "/verif/replays", "replay directory")
		fs.StringVar(&o.Known, "known", "/verif/known-findings.json", "known findings file")
		fs.StringVar(&o.UnitFilter, "unit", "", "only units whose name contains this")
		fs.StringVar(&o.ReplayDir, "replaydrivers", "/verif/replay", "replay driver templates")
		fs.StringVar(&o.Expected, "expected", "/verif/expected-obligations.json", "pinned obligation counts")
		fs.BoolVar(&o.Verbose, "v", false, "verbose")
		fs.BoolVar(&o.KeepFiles, "keep", false, "keep SMT files")
		fs.BoolVar(&o.Sweep, "sweep", false, "no-panic sweep over the anchored files (thorough C09)")
		fs.BoolVar(&o.Pin, "pin", false, "rewrite the pinned obligation counts for this property")
		fs.Parse(os.Args[2:])
		os.Exit(check.Run(o))
	case "keys":
		keys(os.Args[2:])
	case "list":
		fs := flag.NewFlagSet("list", flag.ExitOnError)
		repo := fs.String("repo", "/repo", "")
		specs := fs.String("specs", "/verif/specs", "")
		fs.Parse(os.Args[2:])
		p, err := load.Load(*repo)
		if err != nil {
			fmt.Fprintln(os.Stderr, err)
			os.Exit(2)
		}
		w, err := vc.NewWorld(p, *specs)
		if err != nil {
			fmt.Fprintln(os.Stderr, err)
			os.Exit(2)
		}
		for _, pr := range w.Problems {
			fmt.Println("PROBLEM:", pr)
		}
		for _, u := range w.UnitsFor("") {
			fmt.Println(u.Name, u.Spec.Props)
		}
	default:
		usage()
	}
}

func dump(args []string) {
	p, err := load.Load(args[0])
	if err != nil {
		fmt.Fprintln(os.Stderr, err)
		os.Exit(2)
	}
	sp := p.SSAPkg[p.Module+"/"+args[1]]
	if sp == nil {
		fmt.Fprintln(os.Stderr, "no pkg")
		os.Exit(2)
	}
	seen := map[*ssa.Function]bool{}
	var walk func(f *ssa.Function)
	walk = func(f *ssa.Function) {
		if f == nil || seen[f] {
			return
		}
		seen[f] = true
		if strings.Contains(f.String(), args[2]) {
			f.WriteTo(os.Stdout)
		}
		for _, a := range f.AnonFuncs {
			walk(a)
		}
	}
	for _, m := range sp.Members {
		switch m := m.(type) {
		case *ssa.Function:
			walk(m)
		case *ssa.Type:
			for _, f := range methodsOf(p, m) {
				walk(f)
			}
		}
	}
}

// keys prints the canonical callee keys of every call in the functions matching a substring.
func keys(args []string) {
	p, err := load.Load(args[0])
	if err != nil {
		fmt.Fprintln(os.Stderr, err)
		os.Exit(2)
	}
	sp := p.SSAPkg[p.Module+"/"+args[1]]
	seen := map[*ssa.Function]bool{}
	var walk func(f *ssa.Function)
	walk = func(f *ssa.Function) {
		if f == nil || seen[f] {
			return
		}
		seen[f] = true
		if strings.Contains(f.String(), args[2]) {
			fmt.Println("==", vc.FuncKey(f))
			for _, b := range f.Blocks {
				for _, ins := range b.Instrs {
					if c, ok := ins.(ssa.CallInstruction); ok {
						cc := c.Common()
						switch {
						case cc.IsInvoke():
							fmt.Println("   invoke", vc.MethodKey(cc.Method))
						case cc.StaticCallee() != nil:
							fmt.Println("   static", vc.FuncKey(cc.StaticCallee()))
						default:
							fmt.Println("   dynamic/builtin", cc.Value.Name())
						}
					}
				}
			}
		}
		for _, a := range f.AnonFuncs {
			walk(a)
		}
	}
	for _, m := range sp.Members {
		switch m := m.(type) {
		case *ssa.Function:
			walk(m)
		case *ssa.Type:
			for _, f := range methodsOf(p, m) {
				walk(f)
			}
		}
	}
}
