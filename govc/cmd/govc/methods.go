package main

import (
	"go/types"

	"golang.org/x/tools/go/ssa"
	"govc/internal/load"
)

func methodsOf(p *load.Program, m *ssa.Type) []*ssa.Function {
	var out []*ssa.Function
	nt, ok := m.Type().(*types.Named)
	if !ok {
		return nil
	}
	for i := 0; i < nt.NumMethods(); i++ {
		if f := p.SSA.FuncValue(nt.Method(i)); f != nil {
			out = append(out, f)
		}
	}
	return out
}
