package main

import (
	"fmt"
	"os"

	"govc/internal/spec"
)

func main() {
	e, err := spec.ParseExpr(os.Args[1])
	fmt.Printf("%#v\n%v\n", e, err)
	if b, ok := e.(*spec.Binary); ok {
		fmt.Printf("op=%s\nX=%#v\nY=%#v\n", b.Op, b.X, b.Y)
	}
}
