// Package load builds go/ssa for the repository's current working tree.
package load

import (
	"fmt"
	"go/ast"
	"go/token"
	"os"
	"sort"
	"strings"

	"golang.org/x/tools/go/packages"
	"golang.org/x/tools/go/ssa"
	"golang.org/x/tools/go/ssa/ssautil"
)

// Program is the loaded repository.
type Program struct {
	Fset   *token.FileSet
	Pkgs   []*packages.Package // module packages only (topological order not guaranteed)
	All    map[string]*packages.Package
	SSA    *ssa.Program
	SSAPkg map[string]*ssa.Package // by import path
	Module string                  // module path of the repository
	Dir    string
}

// Load loads every package of the module rooted at dir with build tag "verif".
func Load(dir string) (*Program, error) {
	cfg := &packages.Config{
		Mode:       packages.LoadSyntax | packages.NeedModule,
		Dir:        dir,
		BuildFlags: []string{"-tags=verif"},
		Env:        append(os.Environ(), "GOFLAGS=-mod=mod", "GOPROXY=off"),
		Tests:      false,
	}
	pkgs, err := packages.Load(cfg, "./...")
	if err != nil {
		return nil, err
	}
	var errs []string
	packages.Visit(pkgs, nil, func(p *packages.Package) {
		for _, e := range p.Errors {
			errs = append(errs, e.Error())
		}
	})
	if len(errs) > 0 {
		return nil, fmt.Errorf("load errors:\n%s", strings.Join(errs, "\n"))
	}
	if len(pkgs) == 0 {
		return nil, fmt.Errorf("no packages in %s", dir)
	}
	prog, spkgs := ssautil.Packages(pkgs, ssa.NaiveForm|ssa.GlobalDebug)
	prog.Build()
	p := &Program{Fset: prog.Fset, SSA: prog, SSAPkg: map[string]*ssa.Package{}, All: map[string]*packages.Package{}, Dir: dir}
	for i, pk := range pkgs {
		if pk.Module != nil && p.Module == "" {
			p.Module = pk.Module.Path
		}
		p.Pkgs = append(p.Pkgs, pk)
		_ = i
	}
	_ = spkgs
	packages.Visit(pkgs, nil, func(pk *packages.Package) {
		p.All[pk.PkgPath] = pk
		if sp := prog.Package(pk.Types); sp != nil {
			p.SSAPkg[pk.PkgPath] = sp
		}
	})
	sort.Slice(p.Pkgs, func(i, j int) bool { return p.Pkgs[i].PkgPath < p.Pkgs[j].PkgPath })
	return p, nil
}

// InModule reports whether the import path belongs to the repository's module.
func (p *Program) InModule(path string) bool {
	return path == p.Module || strings.HasPrefix(path, p.Module+"/")
}

// ShortPkg returns the path of pkg relative to the module ("engine", "types", ...).
func (p *Program) ShortPkg(path string) string {
	if path == p.Module {
		return "."
	}
	return strings.TrimPrefix(path, p.Module+"/")
}

// FileOf returns the syntax file containing pos.
func (p *Program) FileOf(pk *packages.Package, pos token.Pos) *ast.File {
	for _, f := range pk.Syntax {
		if f.FileStart <= pos && pos <= f.FileEnd {
			return f
		}
	}
	return nil
}
