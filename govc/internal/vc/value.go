// Package vc generates verification conditions from go/ssa and contracts.
package vc

import (
	"fmt"
	"go/types"
	"strings"

	"golang.org/x/tools/go/ssa"
	"govc/internal/smt"
)

// Unsupported is panicked when a construct is outside the supported subset.
type Unsupported struct{ Msg string }

func (u Unsupported) Error() string { return "outside subset: " + u.Msg }

func unsupported(f string, a ...any) { panic(Unsupported{fmt.Sprintf(f, a...)}) }

// Leaf is one SMT-level component of a Go value.
type Leaf struct {
	Path string
	Sort smt.Sort
}

// PtrKind distinguishes static pointer shapes.
type PtrKind int

const (
	PtrHeap   PtrKind = iota // Base is a Ref to a whole heap object of type Root
	PtrLocal                 // non-escaping ssa.Alloc held in the symbolic store
	PtrElem                  // element of a slice backing array (Arr, Idx)
	PtrGlobal                // package-level variable
	PtrArrayElem             // element of an array held in a local/global (Parent, Idx)
)

// Ptr is a pointer whose shape is known statically.
type Ptr struct {
	Kind  PtrKind
	Base  smt.Term    // PtrHeap: object ref; PtrElem: backing array ref
	Idx   smt.Term    // PtrElem: absolute index in the backing array
	Alloc *ssa.Alloc  // PtrLocal
	Glob  *ssa.Global // PtrGlobal
	Root  types.Type  // type of the object Base/Alloc/Glob/element denotes
	Path  []int       // field indices from Root down to the pointee
	Parent *Ptr       // PtrArrayElem
}

// Value is a symbolic Go value: a list of leaves, or a static pointer, or a tuple.
type Value struct {
	T     types.Type
	L     []smt.Term
	P     *Ptr    // static pointer (T is a pointer type)
	Elems []Value // tuple
}

func (v Value) one() smt.Term {
	if len(v.L) != 1 {
		panic(fmt.Sprintf("vc: value of type %v has %d leaves, expected 1", v.T, len(v.L)))
	}
	return v.L[0]
}

func scalar(t types.Type, term smt.Term) Value { return Value{T: t, L: []smt.Term{term}} }

// Slice components by position.
const (
	slArr = 0
	slOff = 1
	slLen = 2
	slCap = 3
)

var bv64 = smt.BV(64)

func isPointerShaped(t types.Type) bool {
	switch u := t.Underlying().(type) {
	case *types.Pointer, *types.Map, *types.Chan, *types.Signature:
		return true
	case *types.Basic:
		return u.Kind() == types.UnsafePointer
	}
	return false
}

func basicWidth(b *types.Basic) (w int, signed bool, ok bool) {
	switch b.Kind() {
	case types.Int, types.Int64, types.UntypedInt, types.UntypedRune:
		return 64, true, true
	case types.Uint, types.Uint64, types.Uintptr:
		return 64, false, true
	case types.Int32:
		return 32, true, true
	case types.Uint32:
		return 32, false, true
	case types.Int16:
		return 16, true, true
	case types.Uint16:
		return 16, false, true
	case types.Int8:
		return 8, true, true
	case types.Uint8:
		return 8, false, true
	}
	return 0, false, false
}

// intInfo returns width and signedness for integer types.
func intInfo(t types.Type) (int, bool, bool) {
	if b, ok := types.Unalias(t).Underlying().(*types.Basic); ok {
		return basicWidth(b)
	}
	return 0, false, false
}

func typeKey(t types.Type) string {
	return types.TypeString(deAlias(t), func(p *types.Package) string { return p.Path() })
}

// deAlias removes type aliases (also below pointers, slices, arrays, maps and channels), so that types.BytesBuffer and
// the parser's BytesBuffer it aliases are one type for keys and type tags.
func deAlias(t types.Type) types.Type {
	t = types.Unalias(t)
	switch u := t.(type) {
	case *types.Pointer:
		if e := deAlias(u.Elem()); e != u.Elem() {
			return types.NewPointer(e)
		}
	case *types.Slice:
		if e := deAlias(u.Elem()); e != u.Elem() {
			return types.NewSlice(e)
		}
	case *types.Array:
		if e := deAlias(u.Elem()); e != u.Elem() {
			return types.NewArray(e, u.Len())
		}
	case *types.Map:
		k, e := deAlias(u.Key()), deAlias(u.Elem())
		if k != u.Key() || e != u.Elem() {
			return types.NewMap(k, e)
		}
	case *types.Chan:
		if e := deAlias(u.Elem()); e != u.Elem() {
			return types.NewChan(u.Dir(), e)
		}
	}
	return t
}

// leaves flattens a Go type.
func (e *Engine) leaves(t types.Type) []Leaf {
	key := typeKey(t)
	if l, ok := e.leafCache[key]; ok {
		return l
	}
	l := e.leaves1(t)
	e.leafCache[key] = l
	return l
}

func (e *Engine) leaves1(t types.Type) []Leaf {
	t = types.Unalias(t)
	if tp, ok := t.(*types.TypeParam); ok {
		return []Leaf{{"", smt.Sort("TP_" + tp.Obj().Name())}}
	}
	switch u := t.Underlying().(type) {
	case *types.Basic:
		if w, _, ok := basicWidth(u); ok {
			return []Leaf{{"", smt.BV(w)}}
		}
		switch u.Kind() {
		case types.Bool, types.UntypedBool:
			return []Leaf{{"", smt.Bool}}
		case types.String, types.UntypedString:
			return []Leaf{{"", smt.Str}}
		case types.UnsafePointer, types.UntypedNil:
			return []Leaf{{"", smt.Ref}}
		case types.Float32, types.Float64, types.UntypedFloat:
			return []Leaf{{"", smt.Sort("F64")}}
		case types.Complex64, types.Complex128:
			return []Leaf{{"", smt.Sort("C128")}}
		}
		unsupported("basic type %v", u)
	case *types.Pointer, *types.Map, *types.Chan, *types.Signature:
		return []Leaf{{"", smt.Ref}}
	case *types.Interface:
		return []Leaf{{"", smt.Iface}}
	case *types.Slice:
		return []Leaf{{".arr", smt.Ref}, {".off", bv64}, {".len", bv64}, {".cap", bv64}}
	case *types.Struct:
		var out []Leaf
		for i := 0; i < u.NumFields(); i++ {
			f := u.Field(i)
			for _, l := range e.leaves(f.Type()) {
				out = append(out, Leaf{"." + f.Name() + l.Path, l.Sort})
			}
		}
		return out
	case *types.Array:
		el := e.leaves(u.Elem())
		if len(el) != 1 {
			unsupported("array of composite element type %v", t)
		}
		return []Leaf{{"", smt.ArrayOf(bv64, el[0].Sort)}}
	case *types.Tuple:
		var out []Leaf
		for i := 0; i < u.Len(); i++ {
			for _, l := range e.leaves(u.At(i).Type()) {
				out = append(out, Leaf{fmt.Sprintf(".%d%s", i, l.Path), l.Sort})
			}
		}
		return out
	}
	unsupported("type %v", t)
	return nil
}

// fieldRange returns the leaf range [lo,hi) of field i inside struct type st.
func (e *Engine) fieldRange(st *types.Struct, i int) (int, int) {
	lo := 0
	for j := 0; j < i; j++ {
		lo += len(e.leaves(st.Field(j).Type()))
	}
	return lo, lo + len(e.leaves(st.Field(i).Type()))
}

// pathLeafPrefix returns the leaf-path prefix and the type reached by following path from root.
func (e *Engine) followPath(root types.Type, path []int) (string, types.Type) {
	t := root
	var sb strings.Builder
	for _, i := range path {
		st, ok := types.Unalias(t).Underlying().(*types.Struct)
		if !ok {
			unsupported("field path through non-struct %v", t)
		}
		sb.WriteString(".")
		sb.WriteString(st.Field(i).Name())
		t = st.Field(i).Type()
	}
	return sb.String(), t
}

// zeroLeaf is the zero value of a sort.
func (e *Engine) zeroLeaf(s smt.Sort) smt.Term {
	if w := smt.BVWidth(s); w > 0 {
		return smt.BVLit(0, w)
	}
	switch s {
	case smt.Bool:
		return smt.False
	case smt.Ref:
		return e.null()
	case smt.Str:
		return e.strLit("")
	case smt.Iface:
		return e.nilIface()
	case smt.Int:
		return smt.IntLit(0)
	}
	if ix, el, ok := smt.ArrayParts(s); ok {
		z := e.zeroLeaf(el)
		if z.Const {
			return smt.Term{S: fmt.Sprintf("((as const %s) %s)", s, z.S), Sort: s}
		}
		// cvc5 accepts only literal values in constant arrays: use a declared array with a point-wise axiom
		name := "zeroarr<" + string(s) + ">"
		a := e.ctx.Const(name, s)
		if !e.zeroArrDone[name] {
			e.zeroArrDone[name] = true
			e.ctx.RawDecl(fmt.Sprintf("(assert (forall ((k!z %s)) (! (= (select %s k!z) %s) :pattern ((select %s k!z)))))", ix, a.S, z.S, a.S))
		}
		return a
	}
	// uninterpreted sorts (type parameters, floats): a distinguished zero constant
	return e.ctx.Const("zero_"+string(s), s)
}

func (t0 Value) withT(t types.Type) Value { t0.T = t; return t0 }

// zero builds the zero value of a type.
func (e *Engine) zero(t types.Type) Value {
	var ls []smt.Term
	for _, l := range e.leaves(t) {
		ls = append(ls, e.zeroLeaf(l.Sort))
	}
	return Value{T: t, L: ls}
}

func (e *Engine) null() smt.Term     { return e.ctx.Const("null", smt.Ref) }
func (e *Engine) nilIface() smt.Term { return e.ctx.Const("nil_iface", smt.Iface) }

// fresh builds a fresh symbolic value of a type.
func (e *Engine) fresh(hint string, t types.Type) Value {
	var ls []smt.Term
	for _, l := range e.leaves(t) {
		ls = append(ls, e.ctx.Fresh(hint+l.Path, l.Sort))
	}
	return Value{T: t, L: ls}
}

// strLit returns the constant denoting a string literal.
func (e *Engine) strLit(s string) smt.Term {
	if t, ok := e.strLits[s]; ok {
		return t
	}
	name := fmt.Sprintf("str!%d", len(e.strLits))
	t := e.ctx.Const(name, smt.Str)
	e.strLits[s] = t
	e.strLitOrder = append(e.strLitOrder, s)
	// length axiom
	e.ctx.Axiom(smt.Eq(e.strLen(t), smt.BVLit(uint64(len(s)), 64)))
	// content axioms for short literals
	if len(s) <= 64 {
		for i := 0; i < len(s); i++ {
			e.ctx.Axiom(smt.Eq(e.strAt(t, smt.BVLit(uint64(i), 64)), smt.BVLit(uint64(s[i]), 8)))
		}
	}
	return t
}

func (e *Engine) strLen(s smt.Term) smt.Term {
	f := e.ctx.Fun("s.len", []smt.Sort{smt.Str}, bv64)
	return smt.App(bv64, f, s)
}

func (e *Engine) strAt(s, i smt.Term) smt.Term {
	f := e.ctx.Fun("s.at", []smt.Sort{smt.Str, bv64}, smt.BV(8))
	return smt.App(smt.BV(8), f, s, i)
}

// typeTag returns the Int constant identifying a dynamic type.
func (e *Engine) typeTag(t types.Type) smt.Term {
	key := typeKey(t)
	if n, ok := e.typeTags[key]; ok {
		return smt.IntLit(int64(n))
	}
	n := len(e.typeTags) + 1
	e.typeTags[key] = n
	e.typeTagTypes = append(e.typeTagTypes, t)
	return smt.IntLit(int64(n))
}

func (e *Engine) dyn(i smt.Term) smt.Term {
	f := e.ctx.Fun("dyn", []smt.Sort{smt.Iface}, smt.Int)
	return smt.App(smt.Int, f, i)
}

// box wraps a concrete value into an interface value.
func (e *Engine) box(v Value) smt.Term {
	t := v.T
	if types.IsInterface(t) {
		return v.one()
	}
	ls := e.leaves(t)
	key := typeKey(t)
	var sorts []smt.Sort
	for _, l := range ls {
		sorts = append(sorts, l.Sort)
	}
	leaves := e.leavesOf(v)
	bf := e.ctx.Fun("box<"+key+">", sorts, smt.Iface)
	b := smt.App(smt.Iface, bf, leaves...)
	return b
}

// boxFacts returns the facts that hold of b = box(v): dynamic type and inverse.
func (e *Engine) boxFacts(b smt.Term, v Value) []smt.Term {
	t := v.T
	ls := e.leaves(t)
	key := typeKey(t)
	facts := []smt.Term{smt.Eq(e.dyn(b), e.typeTag(t))}
	leaves := e.leavesOf(v)
	for i, l := range ls {
		uf := e.ctx.Fun(fmt.Sprintf("unbox<%s>%s", key, l.Path), []smt.Sort{smt.Iface}, l.Sort)
		facts = append(facts, smt.Eq(smt.App(l.Sort, uf, b), leaves[i]))
	}
	return facts
}

// unbox extracts the value of dynamic type t from an interface term.
func (e *Engine) unbox(i smt.Term, t types.Type) Value {
	ls := e.leaves(t)
	key := typeKey(t)
	var out []smt.Term
	for _, l := range ls {
		uf := e.ctx.Fun(fmt.Sprintf("unbox<%s>%s", key, l.Path), []smt.Sort{smt.Iface}, l.Sort)
		out = append(out, smt.App(l.Sort, uf, i))
	}
	return Value{T: t, L: out}
}

// leavesOf returns the leaf terms of a value (static heap pointers become their Ref).
func (e *Engine) leavesOf(v Value) []smt.Term {
	if v.P != nil {
		if v.P.Kind == PtrHeap && len(v.P.Path) == 0 {
			return []smt.Term{v.P.Base}
		}
		unsupported("pointer to %s escapes into a symbolic position", v.P.describe())
	}
	if v.Elems != nil {
		var out []smt.Term
		for _, el := range v.Elems {
			out = append(out, e.leavesOf(el)...)
		}
		return out
	}
	return v.L
}

func (p *Ptr) describe() string {
	switch p.Kind {
	case PtrLocal:
		return "local " + p.Alloc.Comment
	case PtrElem:
		return "slice element"
	case PtrGlobal:
		return "global " + p.Glob.Name()
	}
	return fmt.Sprintf("interior of heap object (path %v)", p.Path)
}

