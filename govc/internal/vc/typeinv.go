package vc

import (
	"fmt"
	"go/types"
	"sort"
	"strings"

	"golang.org/x/tools/go/ssa"
	"govc/internal/smt"
	"govc/internal/spec"
)

// Type invariants ("typeinv (*T) e"): a fact about fields of T that are never assigned after construction.
//
//   - assumed for every non-nil *T value the unit gets hold of (a parameter, a load, a call result): the fields are
//     immutable, so the fact cannot be broken once it holds;
//   - proved at every return of a function that allocates a T, for the objects allocated on that path (the constructor
//     obligation); every such function must be under contract, and a unit that relies on the invariant pulls all of
//     them into the same run (dependency closure), so the assumption is never left unproved;
//   - the fields the expression reads must be immutable in the engine's sense (no store outside construction),
//     which is re-checked on every run against the current tree.

type tiAlloc struct {
	ref smt.Term
	key string
	typ types.Type
}

// typeInvOf returns the invariant declared for a pointer type, if any.
func (w *World) typeInvOf(t types.Type) (*spec.TypeInv, string) {
	if len(w.TypeInvs) == 0 || t == nil {
		return nil, ""
	}
	if _, ok := types.Unalias(t).Underlying().(*types.Pointer); !ok {
		return nil, ""
	}
	k := typeKey(t)
	return w.TypeInvs[k], k
}

// typeInvAllocators lists the functions of the module that allocate the struct behind the pointer type key.
func (w *World) typeInvAllocators(key string) []string {
	if w.typeInvAllocs == nil {
		w.typeInvAllocs = map[string][]string{}
		for _, f := range w.allFuncs {
			seen := map[string]bool{}
			for _, b := range f.Blocks {
				for _, ins := range b.Instrs {
					if a, ok := ins.(*ssa.Alloc); ok {
						k := typeKey(a.Type())
						if w.TypeInvs[k] != nil && !seen[k] {
							seen[k] = true
							w.typeInvAllocs[k] = append(w.typeInvAllocs[k], FuncKey(f))
						}
					}
				}
			}
		}
		for k := range w.typeInvAllocs {
			sort.Strings(w.typeInvAllocs[k])
		}
	}
	return w.typeInvAllocs[key]
}

// typeInvTerm evaluates the invariant for the object r in state st.
func (e *Engine) typeInvTerm(st *State, ti *spec.TypeInv, t types.Type, r smt.Term) smt.Term {
	x := e.x
	env := x.newEnv(st, nil)
	env.pkgPath = ti.Pkg
	for _, f := range e.w.Files {
		if f.Pkg == ti.Pkg && !f.External {
			env.imports = f.Imports
		}
	}
	env.names["this"] = Value{T: t, L: []smt.Term{r}}
	// immutability of what the invariant reads
	pt := types.Unalias(t).Underlying().(*types.Pointer)
	walkExpr(ti.Expr, func(ex spec.Expr) {
		if sel, ok := ex.(*spec.Sel); ok {
			if id, ok := sel.X.(*spec.Ident); ok && id.Name == "this" {
				if k := objKeyPrefix(pt.Elem()) + "." + sel.Name; !e.w.fieldImmutable(k) {
					specErr("typeinv %s reads field %s, which is assigned outside construction", ti.Recv, sel.Name)
				}
			}
		}
	})
	return env.evalBool(ti.Expr)
}

// assumeTypeInv is called for every value whose validity is assumed.
func (e *Engine) assumeTypeInv(st *State, v Value) {
	if e.inTypeInv || e.x == nil || v.P != nil || len(v.L) != 1 || v.L[0].Sort != smt.Ref {
		return
	}
	ti, key := e.w.typeInvOf(v.T)
	if ti == nil || v.L[0].S == e.null().S {
		return
	}
	for _, a := range st.tiAllocs {
		if a.ref.S == v.L[0].S {
			return // under construction on this path
		}
	}
	for _, k := range e.w.typeInvAllocators(key) {
		if e.w.Contracts[k] == nil {
			specErr("typeinv %s: the allocating function %s has no contract, so the invariant would be assumed without proof", ti.Recv, shortKey(k))
		}
		if e.curUnit == nil || e.curUnit.Key != k {
			e.contractsUsed[k] = true
		}
	}
	e.inTypeInv = true
	defer func() { e.inTypeInv = false }()
	if e.typeInvUsed == nil {
		e.typeInvUsed = map[string]bool{}
	}
	if !e.typeInvUsed[key] {
		e.typeInvUsed[key] = true
		e.note("type invariant of %s assumed for the pointers the unit reads (proved at the return of its allocating functions: %s)", ti.Recv, strings.Join(shortKeys(e.w.typeInvAllocators(key)), ", "))
	}
	inv := e.typeInvTerm(st, ti, v.T, v.L[0])
	// objects under construction on this path are excluded by reference as well (a loaded copy of the new pointer)
	var building []smt.Term
	for _, a := range st.tiAllocs {
		if a.key == key {
			building = append(building, smt.Eq(v.L[0], a.ref))
		}
	}
	st.assume(smt.Or(append([]smt.Term{smt.Eq(v.L[0], e.null()), inv}, building...)...))
}

func shortKeys(ks []string) []string {
	var out []string
	for _, k := range ks {
		out = append(out, shortKey(k))
	}
	return out
}

// typeInvAtReturn emits the constructor obligations of the path.
func (x *exec) typeInvAtReturn(st *State, u *Unit) {
	e := x.e
	for i, a := range st.tiAllocs {
		ti := e.w.TypeInvs[a.key]
		if ti == nil {
			continue
		}
		t := a.typ
		e.inTypeInv = true
		g := e.typeInvTerm(st, ti, t, a.ref)
		e.inTypeInv = false
		e.obligation(st, "typeinv", fmt.Sprintf("%s#%d", strings.Trim(ti.Recv, "()"), i+1), "", "every "+ti.Recv+" allocated here satisfies: "+ti.Text, ti.Pos.String(), g)
	}
}
