package vc

import (
	"fmt"
	"go/types"
	"strconv"
	"strings"

	"golang.org/x/tools/go/ssa"
	"govc/internal/smt"
	"govc/internal/spec"
)

func (env *Env) call(e *spec.Call) Value {
	en := env.x.e
	// method call x.m(args) or pkg.F(args)
	if sel, ok := e.Fun.(*spec.Sel); ok {
		return env.methodCall(sel, e.Args)
	}
	id, ok := e.Fun.(*spec.Ident)
	if !ok {
		if te, ok := e.Fun.(*spec.TypeExpr); ok && len(e.Args) == 1 {
			return env.conversion(env.resolveType(te), env.eval(e.Args[0]))
		}
		specErr("cannot call %s", exprString(e.Fun))
	}
	name := id.Name
	argc := func(n int) {
		if len(e.Args) != n {
			specErr("%s expects %d argument(s)", name, n)
		}
	}
	switch name {
	case "calls", "ncalls", "emitted", "arg", "ret", "before", "nevents":
		if env.atCallSite {
			panic(traceAtCallSite{})
		}
	}
	switch name {
	case "old":
		argc(1)
		if env.old == nil {
			if env.inOld {
				return env.eval(e.Args[0]) // old(old(e)) == old(e)
			}
			specErr("old() used where there is no pre-state")
		}
		c := env.child()
		c.st = env.old
		c.old = nil
		c.inOld = true
		if env.oldNames != nil {
			c.names = env.oldNames
		}
		c.frame = nil // in the pre-state parameter names denote entry values
		if env.frame != nil && env.oldNames == nil {
			c.names = env.names
		}
		r := c.eval(e.Args[0])
		// facts learnt about values of the pre-state (allocation stamps, shapes) hold on the current path as well; the
		// pre-state may be shared by several paths, so everything learnt since the snapshot was taken is carried over
		if env.st != env.old && env.old.factBase > 0 && env.old.factBase <= len(env.old.pc) {
			for _, f := range env.old.pc[env.old.factBase:] {
				env.st.assume(f)
			}
		}
		return r
	case "len", "cap":
		argc(1)
		v := env.eval(e.Args[0])
		switch types.Unalias(v.T).Underlying().(type) {
		case *types.Slice:
			if name == "len" {
				return scalar(tInt, v.L[slLen])
			}
			return scalar(tInt, v.L[slCap])
		case *types.Basic:
			return scalar(tInt, en.strLen(v.one()))
		}
		specErr("%s of %s", name, exprString(e.Args[0]))
	case "backing":
		argc(1)
		v := env.eval(e.Args[0])
		return Value{T: types.Typ[types.UnsafePointer], L: []smt.Term{v.L[slArr]}}
	case "off":
		argc(1)
		v := env.eval(e.Args[0])
		return scalar(tInt, v.L[slOff])
	case "typeis":
		v := env.eval(e.Args[0])
		t := env.resolveType(e.Args[1].(*spec.TypeExpr))
		if !types.IsInterface(v.T) {
			specErr("typeis on non-interface %s", exprString(e.Args[0]))
		}
		if types.IsInterface(t) {
			return scalar(tBool, smt.And(smt.Not(smt.Eq(v.one(), en.nilIface())), en.implements(en.dyn(v.one()), t)))
		}
		return scalar(tBool, smt.Eq(en.dyn(v.one()), en.typeTag(t)))
	case "unbox":
		v := env.eval(e.Args[0])
		t := env.resolveType(e.Args[1].(*spec.TypeExpr))
		r := en.unbox(v.one(), t)
		if en.ctx.NoName == 0 {
			// whatever an interface value of the state holds was allocated no later than now
			en.assumeValid(env.st, r)
		}
		return r
	case "zero":
		return en.zero(env.resolveType(e.Args[0].(*spec.TypeExpr)))
	case "be16", "be32", "be64":
		argc(2)
		v := env.eval(e.Args[0])
		i := env.evalInt64(e.Args[1])
		n := map[string]int{"be16": 2, "be32": 4, "be64": 8}[name]
		sl, ok := types.Unalias(v.T).Underlying().(*types.Slice)
		if !ok {
			specErr("%s on non-slice", name)
		}
		var parts []string
		for k := 0; k < n; k++ {
			p := &Ptr{Kind: PtrElem, Base: v.L[slArr], Idx: smt.BVBin("bvadd", v.L[slOff], smt.BVBin("bvadd", i, smt.BVLit(uint64(k), 64))), Root: sl.Elem()}
			parts = append(parts, en.loadRaw(env.st, p).one().S)
		}
		rt := map[int]types.Type{2: types.Typ[types.Uint16], 4: types.Typ[types.Uint32], 8: types.Typ[types.Uint64]}[n]
		return scalar(rt, smt.Term{S: "(concat " + strings.Join(parts, " ") + ")", Sort: smt.BV(8 * n)})
	case "calls":
		argc(1)
		key := env.calleeRef(e.Args[0])
		return scalar(tInt, env.x.callCount(env.st, key))
	case "ncalls":
		// ncalls(f, cond-over-callee-params): number of calls satisfying a condition
		key := env.calleeRef(e.Args[0])
		return scalar(tInt, env.countWhere(key, e.Args[1:]))
	case "emitted":
		// emitted(recv, "evt"): Emit calls on recv with that event name
		argc(2)
		return scalar(tInt, env.emitted(env.eval(e.Args[0]), env.eval(e.Args[1])))
	case "arg":
		// arg(f, k, name-or-index): argument of the k-th (1-based) call to f on this path
		argc(3)
		ev := env.nthEvent(e.Args[0], e.Args[1])
		return env.eventArg(ev, e.Args[2])
	case "nevents":
		// number of observable events on this path: calls that are neither pure nor silent nor inlined, go statements
		n := 0
		for _, ev := range env.st.trace {
			if !ev.Quiet {
				n++
			}
		}
		t := smt.BVLit(uint64(n), 64)
		if len(env.st.callBase) > 0 || env.st.unknownCalls || env.st.lazyBase {
			t = smt.BVBin("bvadd", t, en.ctx.Fresh("unknownevents", bv64))
		}
		return scalar(tInt, t)
	case "ret":
		// ret(f, k) / ret(f, k, j): result (j-th result) of the k-th call to f on this path
		ev := env.nthEvent(e.Args[0], e.Args[1])
		j := 0
		if len(e.Args) == 3 {
			if lit, ok := e.Args[2].(*spec.Lit); ok {
				j, _ = strconv.Atoi(lit.Val)
			}
		}
		if j >= len(ev.Rets) {
			specErr("ret(): the result of that call is not known")
		}
		return ev.Rets[j]
	case "before":
		// before(f, i, g, j): the i-th call to f precedes the j-th call to g
		argc(4)
		a := env.nthEvent(e.Args[0], e.Args[1])
		b := env.nthEvent(e.Args[2], e.Args[3])
		return scalar(tBool, smt.BoolLit(a.Seq < b.Seq))
	case "held":
		argc(1)
		return scalar(tBool, smt.Not(smt.Eq(env.lockOf(e.Args[0]), zero64)))
	case "heldmode":
		argc(1)
		return scalar(tInt, env.lockOf(e.Args[0]))
	case "fresh":
		// fresh(p): p was allocated during the call (stamp greater than the entry clock)
		argc(1)
		v := env.eval(e.Args[0])
		r := en.leavesOf(v)[0]
		if r.Sort != smt.Ref {
			specErr("fresh() of a non-reference")
		}
		if env.old == nil {
			specErr("fresh() needs a pre-state")
		}
		return scalar(tBool, smt.IntBin(">", en.stamp(r), env.old.clock))
	case "elem":
		// elem(m): a (zero) value of the element type of a map or slice - used where only the type matters (Every(elem(m).f))
		argc(1)
		v := env.eval(e.Args[0])
		switch t := types.Unalias(v.T).Underlying().(type) {
		case *types.Map:
			return en.zero(t.Elem())
		case *types.Slice:
			return en.zero(t.Elem())
		}
		specErr("elem() of %s: not a map or slice", exprString(e.Args[0]))
	case "allocated":
		// allocated(p): the object p designates exists in this state (it was allocated no later than now)
		argc(1)
		v := env.eval(e.Args[0])
		r := en.leavesOf(v)[0]
		if r.Sort != smt.Ref {
			specErr("allocated() of a non-reference")
		}
		if env.foreignAlloc && en.curUnit != nil && en.curUnit.entry != nil {
			// at the acquisition of a monitor: what the guarded state refers to existed when the unit started, or was
			// allocated by another goroutine meanwhile; it is none of the unit's own allocations (which the unit has had no
			// opportunity to publish into the guarded state: it did not hold the lock)
			f := en.ctx.Fun("foreign", []smt.Sort{smt.Ref}, smt.Bool)
			return scalar(tBool, smt.And(smt.IntBin("<=", en.stamp(r), env.st.clock),
				smt.Or(smt.IntBin("<=", en.stamp(r), en.curUnit.entry.clock), smt.App(smt.Bool, f, r))))
		}
		return scalar(tBool, smt.IntBin("<=", en.stamp(r), env.st.clock))
	case "implies":
		argc(2)
		return scalar(tBool, smt.Implies(env.evalBool(e.Args[0]), env.evalBool(e.Args[1])))
	case "strlit":
		argc(1)
		return env.eval(e.Args[0])
	case "at":
		argc(2)
		s := env.eval(e.Args[0])
		return scalar(types.Typ[types.Uint8], en.strAt(s.one(), env.evalInt64(e.Args[1])))
	case "concat":
		argc(2)
		a, b := env.eval(e.Args[0]), env.eval(e.Args[1])
		f := en.ctx.Fun("s.concat", []smt.Sort{smt.Str, smt.Str}, smt.Str)
		return scalar(types.Typ[types.String], smt.App(smt.Str, f, a.one(), b.one()))
	case "maphas", "mapval":
		// maphas(m, k) / mapval(m, k): a Go map value as modelled by the has/val arrays
		argc(2)
		m := env.eval(e.Args[0])
		mt, ok := types.Unalias(m.T).Underlying().(*types.Map)
		if !ok {
			specErr("%s: not a map: %s", name, exprString(e.Args[0]))
		}
		kv := env.eval(e.Args[1])
		if kv.T == tUntypedInt || kv.T == types.Typ[types.UntypedNil] {
			kv = env.conversion(mt.Key(), kv)
		}
		hk, ks, vls, vp := env.x.mapKeys(mt)
		k := en.leavesOf(kv)[0]
		has := smt.And(smt.Not(smt.Eq(m.one(), en.null())), smt.Select(smt.Select(en.heapArr(env.st, hk, smt.Ref, smt.ArrayOf(ks, smt.Bool)), m.one()), k))
		if name == "maphas" {
			return scalar(tBool, has)
		}
		out := Value{T: mt.Elem()}
		for _, l := range vls {
			arr := en.heapArr(env.st, vp+l.Path, smt.Ref, smt.ArrayOf(ks, l.Sort))
			out.L = append(out.L, smt.Select(smt.Select(arr, m.one()), k))
		}
		if en.ctx.NoName == 0 {
			// a value that is present in the map is a valid value of its type, allocated no later than now - and before the
			// unit started when the map existed then and its values have not been written since
			en.assumeValidUnder(env.st, has, out)
			for i, l := range vls {
				if l.Sort == smt.Ref {
					key := vp + l.Path
					if arr := en.heapArr(env.st, key, smt.Ref, smt.ArrayOf(ks, l.Sort)); en.unchangedSinceEntry(env.st, key, arr) {
						env.st.assume(smt.Implies(smt.And(has, smt.IntBin("<=", en.stamp(m.one()), en.curUnit.entry.clock)), smt.IntBin("<=", en.stamp(out.L[i]), en.curUnit.entry.clock)))
					}
				}
			}
		}
		return out
	case "isfield":
		// isfield(p, obj, name): the pointer p (e.g. the receiver of an atomic operation) designates field `name` of *obj
		argc(3)
		pv := env.eval(e.Args[0])
		obj := env.eval(e.Args[1])
		fid, ok := e.Args[2].(*spec.Ident)
		if !ok {
			specErr("isfield: third argument must be a field name")
		}
		opt, ok := types.Unalias(obj.T).Underlying().(*types.Pointer)
		if !ok {
			specErr("isfield: %s is not a pointer to a struct", exprString(e.Args[1]))
		}
		fi := fieldIndex(opt.Elem(), fid.Name)
		if fi < 0 {
			specErr("isfield: no field %s", fid.Name)
		}
		if pv.P == nil || pv.P.Kind != PtrHeap || len(pv.P.Path) != 1 || pv.P.Path[0] != fi || typeKey(pv.P.Root) != typeKey(opt.Elem()) {
			return scalar(tBool, smt.False)
		}
		return scalar(tBool, smt.Eq(pv.P.Base, env.x.ptrOf(obj).Base))
	case "iface":
		// iface(x): x boxed into an interface value (for comparisons with interface-typed values)
		argc(1)
		v := env.eval(e.Args[0])
		return scalar(types.NewInterfaceType(nil, nil), en.box(v))
	case "deref":
		argc(1)
		v := env.eval(e.Args[0])
		return env.x.loadVia(env.st, env.x.ptrOf(v))
	case "visited":
		// visited(k): the key has been produced by the map iteration of the loop (the only one of the function)
		argc(1)
		var keys []string
		for n := range env.st.ghostLocals {
			if strings.HasPrefix(n, "$visited#") {
				keys = append(keys, n)
			}
		}
		if len(keys) != 1 {
			specErr("visited(): the function must have exactly one running map iteration (has %d)", len(keys))
		}
		kv := env.eval(e.Args[0])
		return scalar(tBool, smt.Select(env.st.ghostLocals[keys[0]].L[0], en.leavesOf(kv)[0]))
	case "aload":
		// aload(x): the pointer held by x, a value of type atomic.Pointer[T], typed *T
		argc(1)
		v := env.eval(e.Args[0])
		n, _ := types.Unalias(v.T).(*types.Named)
		if n == nil || n.Obj().Pkg() == nil || n.Obj().Pkg().Path() != "sync/atomic" || n.Obj().Name() != "Pointer" || n.TypeArgs().Len() != 1 {
			specErr("aload: %s is not an atomic.Pointer", exprString(e.Args[0]))
		}
		fi := fieldIndex(v.T, "v")
		fv := en.subValue(v, v.T, []int{fi})
		return Value{T: types.NewPointer(n.TypeArgs().At(0)), L: fv.L}
	case "atlock":
		// atlock(e): e in the state right after the unit last acquired a monitor lock - the state in which an operation
		// that takes the lock takes effect; the entry state when no lock was acquired; the pre-state at call sites
		argc(1)
		if env.inOld {
			return env.eval(e.Args[0])
		}
		if env.atCallSite || env.st.atLock == nil {
			if env.old == nil {
				return env.eval(e.Args[0])
			}
			return env.eval(&spec.Call{Fun: &spec.Ident{Name: "old"}, Args: e.Args})
		}
		c := env.child()
		c.st = env.st.atLock
		c.old = nil
		c.inOld = true
		if env.oldNames != nil {
			c.names = env.oldNames
		}
		c.frame = nil
		if env.frame != nil && env.oldNames == nil {
			c.names = env.names
		}
		r := c.eval(e.Args[0])
		if env.st != c.st && c.st.factBase > 0 && c.st.factBase <= len(c.st.pc) {
			for _, f := range c.st.pc[c.st.factBase:] {
				env.st.assume(f)
			}
		}
		return r
	}
	// conversions to basic / named types
	if t := env.lookupType(name); t != nil && len(e.Args) == 1 {
		return env.conversion(t, env.eval(e.Args[0]))
	}
	// spec functions
	if sf := en.w.SpecFuncs[name]; sf != nil {
		return env.specCall(sf, e.Args)
	}
	// uninterpreted function declared ad hoc: uf_<name>
	if strings.HasPrefix(name, "uf_") {
		var args []smt.Term
		var sorts []smt.Sort
		for _, a := range e.Args {
			v := env.eval(a)
			for _, l := range en.leavesOf(v) {
				args = append(args, l)
				sorts = append(sorts, l.Sort)
			}
		}
		rs := bv64
		rt := types.Type(tInt)
		if strings.HasPrefix(name, "uf_b_") {
			rs, rt = smt.Bool, tBool
		} else if strings.HasPrefix(name, "uf_u8_") {
			rs, rt = smt.BV(8), types.Typ[types.Uint8]
		} else if strings.HasPrefix(name, "uf_i_") {
			rs, rt = smt.Iface, types.NewInterfaceType(nil, nil)
		} else if strings.HasPrefix(name, "uf_r_") {
			rs, rt = smt.Ref, types.Typ[types.UnsafePointer]
		} else if strings.HasPrefix(name, "uf_s_") {
			rs, rt = smt.Str, types.Typ[types.String]
		}
		sig := name
		for _, so := range sorts {
			sig += "/" + string(so)
		}
		f := en.ctx.Fun(sig, sorts, rs)
		return scalar(rt, smt.App(rs, f, args...))
	}
	// package-level function of the module, evaluated purely
	if pk := en.w.Prog.All[env.pkgPath]; pk != nil && pk.Types != nil {
		if fo, ok := pk.Types.Scope().Lookup(name).(*types.Func); ok {
			if sp := en.w.Prog.SSA.Package(fo.Pkg()); sp != nil {
				if f := sp.Func(name); f != nil {
					var args []Value
					for _, a := range e.Args {
						args = append(args, env.eval(a))
					}
					return env.pureCall(calleeInfo{key: FuncKey(f), fn: f, sig: f.Signature}, args)
				}
			}
		}
	}
	specErr("unknown function %s", name)
	return Value{}
}

func (env *Env) lookupType(name string) types.Type {
	if obj := types.Universe.Lookup(name); obj != nil {
		if tn, ok := obj.(*types.TypeName); ok {
			return tn.Type()
		}
		return nil
	}
	if pk := env.x.e.w.Prog.All[env.pkgPath]; pk != nil && pk.Types != nil {
		if tn, ok := pk.Types.Scope().Lookup(name).(*types.TypeName); ok {
			return tn.Type()
		}
	}
	return nil
}

func (env *Env) conversion(t types.Type, v Value) Value {
	if v.T == tUntypedInt {
		if w, _, ok := intInfo(t); ok {
			return scalar(t, smt.Resize(v.one(), w, true))
		}
	}
	if v.T == types.Typ[types.UntypedNil] {
		return env.x.e.zero(t)
	}
	if types.IsInterface(t) && !types.IsInterface(v.T) {
		return scalar(t, env.x.e.box(v))
	}
	if types.IsInterface(t) && types.IsInterface(v.T) {
		return scalar(t, v.one())
	}
	return env.x.convert(env.st, v, t)
}

func (env *Env) specCall(sf *spec.SpecFunc, args []spec.Expr) Value {
	if len(args) != len(sf.Params) {
		specErr("spec function %s expects %d arguments", sf.Name, len(sf.Params))
	}
	c := env.child()
	c.names = map[string]Value{}
	c.bound = nil
	c.macros = map[string]spec.Expr{}
	c.frame = nil
	c.pkgPath = sf.Pkg
	for i, p := range sf.Params {
		v := env.eval(args[i])
		if p.Type == nil {
			c.names[p.Name] = v
			continue
		}
		pt := c.resolveType(p.Type)
		if v.T == tUntypedInt || v.T == types.Typ[types.UntypedNil] {
			v = env.conversion(pt, v)
		}
		if _, _, isInt := intInfo(pt); isInt {
			if w, s, ok := intInfo(v.T); ok {
				tw, _, _ := intInfo(pt)
				_ = w
				v = scalar(pt, smt.Resize(v.one(), tw, s))
			}
		}
		c.names[p.Name] = v
	}
	// bound variables stay visible for nested quantifier bodies
	c.bound = env.bound
	r := c.eval(sf.Body)
	if sf.Result == nil {
		return r
	}
	rt := c.resolveType(sf.Result)
	if r.T == tUntypedInt {
		r = env.conversion(rt, r)
	}
	r.T = rt
	return r
}

// methodCall evaluates x.m(args) in a specification: pure in-repo methods are executed symbolically,
// interface methods need a contract marked "stable" (result depends on the arguments only) or "pure" with ensures.
func (env *Env) methodCall(sel *spec.Sel, argExprs []spec.Expr) Value {
	en := env.x.e
	// pkg.F(args)?
	if id, ok := sel.X.(*spec.Ident); ok {
		if _, shadow := env.names[id.Name]; !shadow && env.bound[id.Name].T == nil {
			if pk := env.importedPkg(id.Name); pk != nil && (env.frame == nil || !env.isLocalName(id.Name)) {
				obj := pk.Scope().Lookup(sel.Name)
				switch o := obj.(type) {
				case *types.TypeName:
					if len(argExprs) == 1 {
						return env.conversion(o.Type(), env.eval(argExprs[0]))
					}
				case *types.Func:
					var args []Value
					for _, a := range argExprs {
						args = append(args, env.eval(a))
					}
					key := o.Pkg().Path() + "." + o.Name()
					ci := calleeInfo{key: key, sig: o.Type().(*types.Signature)}
					if sp := en.w.Prog.SSA.Package(o.Pkg()); sp != nil {
						ci.fn = sp.Func(o.Name())
					}
					return env.pureCall(ci, args)
				}
				specErr("%s.%s is not callable", id.Name, sel.Name)
			}
		}
	}
	recv := env.eval(sel.X)
	var args []Value
	for _, a := range argExprs {
		args = append(args, env.eval(a))
	}
	t := recv.T
	obj, index, indirect := types.LookupFieldOrMethod(t, true, nil, sel.Name)
	if obj == nil {
		if n := namedOf(t); n != nil && n.Obj().Pkg() != nil {
			obj, index, indirect = types.LookupFieldOrMethod(t, true, n.Obj().Pkg(), sel.Name)
		}
	}
	_ = indirect
	fo, ok := obj.(*types.Func)
	if !ok {
		// field of function type called? not supported in specifications
		specErr("no method %s on %v", sel.Name, t)
	}
	// walk embedded fields to the receiver the method is declared on
	cur := recv
	for _, i := range index[:len(index)-1] {
		if _, ok := types.Unalias(cur.T).Underlying().(*types.Pointer); ok {
			p := env.x.ptrOf(cur)
			np := *p
			np.Path = append(append([]int(nil), p.Path...), i)
			cur = env.x.loadVia(env.st, &np)
		} else {
			cur = en.subValue(cur, cur.T, []int{i})
		}
	}
	sig := fo.Type().(*types.Signature)
	if types.IsInterface(cur.T) {
		ci := calleeInfo{key: MethodKey(fo), method: fo, sig: sig}
		return env.pureCall(ci, append([]Value{cur}, args...))
	}
	f := en.w.Prog.SSA.FuncValue(fo)
	if f == nil {
		specErr("method %s has no SSA function", fo.FullName())
	}
	// receiver adjustment: value receiver called on pointer
	if _, isPtr := types.Unalias(sig.Recv().Type()).Underlying().(*types.Pointer); !isPtr {
		if _, vp := types.Unalias(cur.T).Underlying().(*types.Pointer); vp {
			cur = env.x.loadVia(env.st, env.x.ptrOf(cur))
		}
	}
	ci := calleeInfo{key: FuncKey(f), fn: f, sig: f.Signature}
	return env.pureCall(ci, append([]Value{cur}, args...))
}

// pureCall evaluates a call inside a specification without changing the state.
func (env *Env) pureCall(ci calleeInfo, args []Value) Value {
	en := env.x.e
	if fs := en.w.Contracts[ci.key]; fs != nil && !(fs.Inline && ci.fn != nil && ci.fn.Blocks != nil) {
		if fs.External || fs.Trusted != "" {
			en.trustedUsed[fs.Key] = true
		} else {
			en.contractsUsed[fs.Key] = true
		}
		if fs.Opts["stable"] != "" {
			return env.stableResult(ci, fs, args)
		}
		if fs.Pure {
			// result characterised by its ensures: introduce a fresh value and assume them on the evaluation state
			names := paramNames(ci, fs)
			post := env.x.newEnv(env.st, fs)
			for i, n := range names {
				if i < len(args) {
					post.names[n] = args[i]
				}
			}
			res := ci.sig.Results()
			if res.Len() != 1 {
				specErr("pure call %s in a specification must have one result", ci.key)
			}
			// functional: the result is an uninterpreted function of the arguments and of the arrays the ensures read;
			// we approximate by a per-state memo so that equal calls in one state agree
			memoKey := ci.key + "|" + fmt.Sprint(en.leavesKey(args)) + "|" + env.st.heapSig()
			if v, ok := en.pureMemo[memoKey]; ok {
				return v
			}
			r := en.fresh("pure_"+lastName(ci.key), res.At(0).Type())
			post.names["result"] = r
			post.names["result0"] = r
			if n := res.At(0).Name(); n != "" {
				post.names[n] = r
			}
			for _, cl := range fs.Ensures {
				en.ctx.Axiom(post.evalBool(cl.Expr))
			}
			en.pureMemo[memoKey] = r
			return r
		}
		specErr("call to %s in a specification: its contract is neither pure nor stable", ci.key)
	}
	if ci.fn == nil || ci.fn.Blocks == nil || !en.w.Prog.InModule(pkgPathOf(ci.fn)) {
		specErr("call to %s in a specification: no body and no pure contract", ci.key)
	}
	return env.x.execPure(env.st, ci, args)
}

func (e *Engine) leavesKey(args []Value) string {
	var sb strings.Builder
	for _, a := range args {
		if a.P != nil {
			sb.WriteString(a.P.describe() + ";")
			continue
		}
		for _, l := range a.L {
			sb.WriteString(l.S)
			sb.WriteByte(',')
		}
		sb.WriteByte(';')
	}
	return sb.String()
}

// heapSig is a string identifying the heap contents of a state (used to memoise pure calls).
func (st *State) heapSig() string {
	var sb strings.Builder
	fmt.Fprintf(&sb, "g%d;", st.gen)
	for _, k := range sortedKeys(st.heap) {
		sb.WriteString(k)
		sb.WriteByte('=')
		sb.WriteString(st.heap[k].S)
		sb.WriteByte(';')
	}
	for _, m := range st.havocked {
		fmt.Fprintf(&sb, "m%d;", m.id)
	}
	return sb.String()
}

// stableResult: uninterpreted function of receiver and arguments only.
func (env *Env) stableResult(ci calleeInfo, fs *spec.FuncSpec, args []Value) Value {
	return env.x.stableCall(env.st, ci, args)
}

func (x *exec) stableCall(st *State, ci calleeInfo, args []Value) Value {
	en := x.e
	res := ci.sig.Results()
	if res.Len() != 1 {
		unsupported("stable function %s must have exactly one result", ci.key)
	}
	var ts []smt.Term
	var ss []smt.Sort
	for _, a := range args {
		for _, l := range en.leavesOf(a) {
			ts = append(ts, l)
			ss = append(ss, l.Sort)
		}
	}
	rt := res.At(0).Type()
	out := Value{T: rt}
	for _, l := range en.leaves(rt) {
		f := en.ctx.Fun("stable<"+ci.key+">"+l.Path, ss, l.Sort)
		out.L = append(out.L, smt.App(l.Sort, f, ts...))
	}
	return out
}

// execPure runs a loop-free, write-free function symbolically and merges its results.
func (x *exec) execPure(st *State, ci calleeInfo, args []Value) Value {
	en := x.e
	if en.pureDepth > 6 {
		specErr("pure evaluation too deep at %s", ci.key)
	}
	en.pureDepth++
	en.mute++
	defer func() { en.pureDepth--; en.mute-- }()
	work := st.clone()
	base := len(work.pc)
	type outcome struct {
		cond smt.Term
		val  Value
	}
	var outs []outcome
	fr := &Frame{fn: ci.fn, depth: 1, loops: x.loopInfoOf(ci.fn), isUnit: false}
	// treat as nested in a pseudo-frame so that recursion is detected
	fr.k = func(s *State, rets []Value) {
		if len(rets) != 1 {
			specErr("pure function %s must return one value", ci.key)
		}
		outs = append(outs, outcome{smt.And(s.pc[base:]...), rets[0]})
	}
	savedPaths := en.paths
	x.inlineInto(work, fr, ci, args)
	en.paths = savedPaths
	if len(outs) == 0 {
		specErr("pure function %s has no return path", ci.key)
	}
	res := outs[len(outs)-1].val
	for i := len(outs) - 2; i >= 0; i-- {
		o := outs[i]
		la, lb := en.leavesOf(o.val), en.leavesOf(res)
		nv := Value{T: res.T, L: make([]smt.Term, len(la))}
		for k := range la {
			nv.L[k] = smt.Ite(o.cond, la[k], lb[k])
		}
		res = nv
	}
	return res
}

func (x *exec) inlineInto(st *State, fr *Frame, ci calleeInfo, args []Value) {
	fn := ci.fn
	for i, p := range fn.Params {
		v := args[i]
		v.T = p.Type()
		st.regs[p] = v
	}
	for i, fv := range fn.FreeVars {
		if i < len(ci.bindings) {
			st.regs[fv] = ci.bindings[i]
		}
	}
	x.run(st, fr, fn.Blocks[0], nil)
}

// calleeRef resolves a function reference used inside calls()/arg().
func (env *Env) calleeRef(e spec.Expr) string {
	s := exprString(e)
	return env.x.resolveCalleeName(env.pkgPath, s)
}

func (x *exec) resolveCalleeName(pkgPath, s string) string {
	if k, ok := x.calleeNameCache[pkgPath+"|"+s]; ok {
		return k
	}
	switch s {
	case "chan.recv", "chan.send", "chan.select", "chan.close":
		// channel operations of the unit, recorded as quiet events
		return "chan:" + s[5:]
	}
	f := &spec.File{Pkg: pkgPath, Imports: map[string]string{}}
	for _, ff := range x.e.w.Files {
		if ff.Pkg == pkgPath {
			f = ff
			break
		}
	}
	key, err := x.e.w.resolveRef(&spec.File{Pkg: f.Pkg, Imports: f.Imports, External: true}, s)
	if err != nil {
		key = "var:" + s
	}
	if _, isFn := x.e.w.funcByKey[key]; !isFn && !x.e.w.isInterfaceMethodKey(key) && x.e.w.Contracts[key] == nil {
		// maybe a variable holding a closure
		if !strings.ContainsAny(s, ".(") {
			key = "var:" + s
		} else if !x.e.w.externalKeyPlausible(key) {
			specErr("function reference %q does not name a function, a method or a contract (resolved to %s)", s, key)
		}
	}
	x.calleeNameCache[pkgPath+"|"+s] = key
	return key
}

func (x *exec) eventMatches(ev *Event, key string) bool {
	if ev.Key == key {
		return true
	}
	if strings.HasPrefix(key, "var:") {
		if c, ok := ev.Site.(ssa.CallInstruction); ok {
			return staticKeyOf(c.Common()) == key
		}
	}
	return false
}

// callCount is the number of calls to key made so far on this path.
func (x *exec) callCount(st *State, key string) smt.Term {
	n := 0
	for _, ev := range st.trace {
		if x.eventMatches(ev, key) {
			n++
		}
	}
	t := smt.BVLit(uint64(n), 64)
	if _, ok := st.callBase[key]; !ok && st.lazyBase {
		b := x.e.ctx.Fresh("ncallsbefore", bv64)
		st.assume(smt.BVCmp("bvsge", b, zero64))
		st.assume(smt.BVCmp("bvsle", b, smt.BVLit(1<<40, 64)))
		st.callBase[key] = b
	}
	if b, ok := st.callBase[key]; ok {
		t = smt.BVBin("bvadd", b, t)
	}
	if st.unknownCalls {
		u := x.e.ctx.Fresh("unknowncalls", bv64)
		t = smt.BVBin("bvadd", t, u)
	}
	return t
}

// countWhere counts events of key whose arguments satisfy every condition (conditions see callee parameter names).
func (env *Env) countWhere(key string, conds []spec.Expr) smt.Term {
	total := smt.BVLit(0, 64)
	for _, ev := range env.st.trace {
		if !env.x.eventMatches(ev, key) {
			continue
		}
		c := env.child()
		c.names = copyMap(env.names)
		for i, n := range ev.Names {
			if i < len(ev.Args) {
				c.names[n] = ev.Args[i]
			}
		}
		for i, a := range ev.Args {
			c.names["$"+strconv.Itoa(i)] = a
		}
		c.st = ev.Pre
		c.frame = nil
		ok := smt.True
		for _, cd := range conds {
			ok = smt.And(ok, c.evalBool(cd))
		}
		total = smt.BVBin("bvadd", total, smt.Ite(ok, smt.BVLit(1, 64), smt.BVLit(0, 64)))
	}
	if b, okb := env.st.callBase[key]; okb {
		_ = b
		u := env.x.e.ctx.Fresh("unknowncalls", bv64)
		total = smt.BVBin("bvadd", total, u)
	}
	if env.st.unknownCalls {
		u := env.x.e.ctx.Fresh("unknowncalls", bv64)
		total = smt.BVBin("bvadd", total, u)
	}
	return total
}

// emitted counts Emit-like events on a receiver with a given event name.
func (env *Env) emitted(recv, evt Value) smt.Term {
	en := env.x.e
	total := smt.BVLit(0, 64)
	for _, ev := range env.st.trace {
		if !strings.HasSuffix(ev.Key, ").Emit") || len(ev.Args) < 2 {
			continue
		}
		r := ev.Args[0]
		var same smt.Term
		ra, rb := r, recv
		ra, rb = env.unify(ra, rb)
		la, lb := en.leavesOf(ra), en.leavesOf(rb)
		if len(la) != 1 || len(lb) != 1 || la[0].Sort != lb[0].Sort {
			continue
		}
		same = smt.Eq(la[0], lb[0])
		nameEq := smt.Eq(ev.Args[1].one(), evt.one())
		total = smt.BVBin("bvadd", total, smt.Ite(smt.And(same, nameEq), smt.BVLit(1, 64), smt.BVLit(0, 64)))
	}
	for k, b := range env.st.callBase {
		if strings.HasSuffix(k, ").Emit") {
			_ = b
			total = smt.BVBin("bvadd", total, en.ctx.Fresh("unknownemits", bv64))
		}
	}
	if env.st.unknownCalls {
		total = smt.BVBin("bvadd", total, en.ctx.Fresh("unknownemits", bv64))
	}
	return total
}

func (env *Env) nthEvent(fe, ke spec.Expr) *Event {
	key := env.calleeRef(fe)
	if id, ok := ke.(*spec.Ident); ok && id.Name == "last" {
		// the most recent event of that key on this path (since the last loop head or path join)
		for i := len(env.st.trace) - 1; i >= 0; i-- {
			if env.x.eventMatches(env.st.trace[i], key) {
				return env.st.trace[i]
			}
		}
		panic(noSuchEvent{key, -1})
	}
	lit, ok := ke.(*spec.Lit)
	if !ok || lit.Kind != "int" {
		specErr("call ordinal must be a literal")
	}
	k, _ := strconv.Atoi(lit.Val)
	n := 0
	for _, ev := range env.st.trace {
		if env.x.eventMatches(ev, key) {
			n++
			if n == k {
				return ev
			}
		}
	}
	// no such call on this path: the clause is vacuous here; signal with a panic the caller turns into "false"
	panic(noSuchEvent{key, k})
}

type noSuchEvent struct {
	key string
	k   int
}

func (env *Env) eventArg(ev *Event, sel spec.Expr) Value {
	switch s := sel.(type) {
	case *spec.Lit:
		i, _ := strconv.Atoi(s.Val)
		if i < len(ev.Args) {
			return ev.Args[i]
		}
	case *spec.Ident:
		for i, n := range ev.Names {
			if n == s.Name && i < len(ev.Args) {
				return ev.Args[i]
			}
		}
	}
	specErr("no such argument %s", exprString(sel))
	return Value{}
}

func (env *Env) lockOf(e spec.Expr) smt.Term {
	// e must be a field path ending in a mutex: evaluate the parent and address the field
	sel, ok := e.(*spec.Sel)
	if !ok {
		specErr("held() expects a field selector")
	}
	base := env.eval(sel.X)
	pt, ok := types.Unalias(base.T).Underlying().(*types.Pointer)
	if !ok {
		specErr("held(): %s is not a pointer to a struct", exprString(sel.X))
	}
	i := fieldIndex(pt.Elem(), sel.Name)
	if i < 0 {
		specErr("held(): no field %s", sel.Name)
	}
	p := env.x.ptrOf(base)
	np := *p
	np.Path = append(append([]int(nil), p.Path...), i)
	return env.x.lockState(env.st, &np)
}


// lvalPtr resolves a field selector chain (c.isDone.v, s.mu) to the location it designates: the innermost pointer-typed
// prefix is evaluated, the remaining selectors extend the field path.
func (env *Env) lvalPtr(m *spec.Sel) *Ptr {
	en := env.x.e
	var baseP *Ptr
	var baseT types.Type
	if inner, ok := m.X.(*spec.Sel); ok && !strings.HasPrefix(inner.Name, "$") {
		// try the prefix as a value first: if it is a pointer, it is the base object
		bv := env.eval(m.X)
		if _, isPtr := types.Unalias(bv.T).Underlying().(*types.Pointer); isPtr {
			baseP, baseT = env.x.ptrOf(bv), bv.T
		} else {
			baseP = env.lvalPtr(inner)
			_, baseT = en.followPath(baseP.Root, baseP.Path)
		}
	} else {
		bv := env.eval(m.X)
		if _, isPtr := types.Unalias(bv.T).Underlying().(*types.Pointer); !isPtr {
			specErr("modifies %s: base is not a pointer", exprString(m))
		}
		baseP, baseT = env.x.ptrOf(bv), bv.T
	}
	obj, index, _ := types.LookupFieldOrMethod(baseT, true, nil, m.Name)
	if obj == nil {
		if n := namedOf(baseT); n != nil && n.Obj().Pkg() != nil {
			obj, index, _ = types.LookupFieldOrMethod(baseT, true, n.Obj().Pkg(), m.Name)
		}
	}
	if obj == nil || len(index) != 1 {
		specErr("modifies %s: no direct field %s in %v", exprString(m), m.Name, baseT)
	}
	np := *baseP
	np.Path = append(append([]int(nil), baseP.Path...), index[0])
	return &np
}

// havocLocation forgets the location(s) designated by a modifies expression (evaluated in env's state) in st.
func (env *Env) havocLocation(st *State, m spec.Expr) {
	en := env.x.e
	if c, ok := m.(*spec.Cond); ok && c.B == nil {
		// "modifies loc if cond": havoc on a copy and keep the old arrays where the condition is false
		cond := en.ctx.Name("modif", env.evalBool(c.C))
		before := map[string]smt.Term{}
		for k, v := range st.heap {
			before[k] = v
		}
		env.havocLocation(st, c.A)
		for k, v := range st.heap {
			old, had := before[k]
			if !had {
				hk := en.heapKeys[k]
				tmp := &State{heap: before, gen: st.gen, havocked: st.havocked}
				old = en.heapArr(tmp, k, hk.Idx, hk.Elem)
			}
			if old.S != v.S {
				st.heap[k] = en.ctx.Name("H<"+k+">", smt.Ite(cond, v, old))
			}
		}
		return
	}
	switch m := m.(type) {
	case *spec.Sel:
		base := env.eval(m.X)
		if strings.HasPrefix(m.Name, "$") {
			key, idx, sort, _ := env.ghostLoc(base, m.Name)
			arr := en.heapArr(st, key, idx.Sort, sort)
			en.setHeapArr(st, key, smt.Store(arr, idx, en.ctx.Fresh("hv"+m.Name, sort)))
			return
		}
		_ = base
		np := *env.lvalPtr(m)
		_, ft := en.followPath(np.Root, np.Path)
		nv := en.fresh("hv_"+m.Name, ft)
		en.assumeValid(st, nv)
		env.x.storeVia(st, &np, nv)
		// a lock embedded in the field keeps its ghost state
	case *spec.Call:
		id, ok := m.Fun.(*spec.Ident)
		if ok && id.Name == "Mem" && len(m.Args) == 1 {
			// whole backing array of a slice
			v := env.eval(m.Args[0])
			sl, ok := types.Unalias(v.T).Underlying().(*types.Slice)
			if !ok {
				// Mem(r) with r a reference (ghost field of type ref): the byte array that r identifies, e.g. the internal
				// buffer of a bufio.Reader
				if len(v.L) == 1 && v.L[0].Sort == smt.Ref {
					key := memKeyPrefix(types.Universe.Lookup("byte").Type())
					arr := en.heapArr(st, key, smt.Ref, smt.ArrayOf(bv64, smt.BV(8)))
					en.setHeapArr(st, key, smt.Store(arr, v.L[0], en.ctx.Fresh("hvmem", smt.ArrayOf(bv64, smt.BV(8)))))
					return
				}
				specErr("Mem() of non-slice")
			}
			for _, l := range en.leaves(sl.Elem()) {
				key := memKeyPrefix(sl.Elem()) + l.Path
				arr := en.heapArr(st, key, smt.Ref, smt.ArrayOf(bv64, l.Sort))
				en.setHeapArr(st, key, smt.Store(arr, v.L[slArr], en.ctx.Fresh("hvmem", smt.ArrayOf(bv64, l.Sort))))
			}
			return
		}
		if ok && id.Name == "MapOf" && len(m.Args) == 1 {
			// the contents (key set and values) of a Go map
			v := env.eval(m.Args[0])
			mt, isMap := types.Unalias(v.T).Underlying().(*types.Map)
			if !isMap {
				specErr("MapOf() of non-map")
			}
			hk, ks, vls, vp := env.x.mapKeys(mt)
			arr := en.heapArr(st, hk, smt.Ref, smt.ArrayOf(ks, smt.Bool))
			en.setHeapArr(st, hk, smt.Store(arr, v.one(), en.ctx.Fresh("hvmaphas", smt.ArrayOf(ks, smt.Bool))))
			for _, l := range vls {
				key := vp + l.Path
				va := en.heapArr(st, key, smt.Ref, smt.ArrayOf(ks, l.Sort))
				en.setHeapArr(st, key, smt.Store(va, v.one(), en.ctx.Fresh("hvmapval", smt.ArrayOf(ks, l.Sort))))
			}
			return
		}
		if ok && id.Name == "Every" && len(m.Args) == 1 {
			// Every(x.f.g): field f.g of every object of x's type (a footprint over objects the caller cannot name)
			sel, isSel := m.Args[0].(*spec.Sel)
			if !isSel {
				specErr("Every(x.f): a field selector is expected")
			}
			p := env.lvalPtr(sel)
			prefix, _ := en.followPath(p.Root, p.Path)
			prefix = objKeyPrefix(p.Root) + prefix
			env.x.havocPrefix(st, prefix, false)
			return
		}
		if ok && id.Name == "deref" && len(m.Args) == 1 {
			v := env.eval(m.Args[0])
			p := env.x.ptrOf(v)
			_, ft := en.followPath(p.Root, p.Path)
			nv := en.fresh("hv_deref", ft)
			en.assumeValid(st, nv)
			env.x.storeVia(st, p, nv)
			return
		}
		specErr("modifies: unsupported location %s", exprString(m))
	case *spec.SliceEx:
		// Mem(s)[lo:hi]: cells lo..hi-1 (relative to the slice) change, the others keep their value
		c, ok := m.X.(*spec.Call)
		if !ok {
			specErr("modifies: unsupported location %s", exprString(m))
		}
		id, _ := c.Fun.(*spec.Ident)
		if id == nil || id.Name != "Mem" {
			specErr("modifies: unsupported location %s", exprString(m))
		}
		v := env.eval(c.Args[0])
		sl := types.Unalias(v.T).Underlying().(*types.Slice)
		lo, hi := zero64, v.L[slLen]
		if m.Lo != nil {
			lo = env.evalInt64(m.Lo)
		}
		if m.Hi != nil {
			hi = env.evalInt64(m.Hi)
		}
		alo := en.ctx.Name("mlo", smt.BVBin("bvadd", v.L[slOff], lo))
		ahi := en.ctx.Name("mhi", smt.BVBin("bvadd", v.L[slOff], hi))
		for _, l := range en.leaves(sl.Elem()) {
			key := memKeyPrefix(sl.Elem()) + l.Path
			arr := en.heapArr(st, key, smt.Ref, smt.ArrayOf(bv64, l.Sort))
			oldIn := en.ctx.Name("oldIn", smt.Select(arr, v.L[slArr]))
			hv := en.ctx.Fresh("hvcells", smt.ArrayOf(bv64, l.Sort))
			inner := env.x.quantArr(st, "modIn", l.Sort, func(k smt.Term) smt.Term {
				return smt.Ite(inRange(alo, k, ahi), smt.Select(hv, k), smt.Select(oldIn, k))
			})
			en.setHeapArr(st, key, smt.Store(arr, v.L[slArr], inner))
		}
	case *spec.Ident:
		if mm, ok := env.macros[m.Name]; ok {
			env.havocLocation(st, mm)
			return
		}
		specErr("modifies: unsupported location %s", exprString(m))
	default:
		specErr("modifies: unsupported location %s", exprString(m))
	}
}

// unitEnv builds the environment for loop invariants and call-site assertions of the unit.
func (x *exec) unitEnv(st *State, fr *Frame) *Env {
	var fs *spec.FuncSpec
	if x.unit != nil {
		fs = x.unit.Spec
	}
	env := x.newEnv(st, fs)
	if fs == nil {
		env.pkgPath = pkgPathOf(fr.fn)
	}
	env.frame = fr
	if x.unit != nil {
		env.old = x.unit.entry
		env.oldNames = x.unit.entryNames
		// entry values remain reachable by name where no local of that name is in scope
		for n, v := range x.unit.entryNames {
			env.names[n] = v
		}
	}
	return env
}

// callSiteAsserts evaluates the unit's callsite clauses for this call.
func (x *exec) callSiteAsserts(st *State, fr *Frame, ins ssa.Instruction, ci calleeInfo, args []Value) {
	if x.unit == nil || x.unit.Spec == nil || len(x.unit.Spec.CallSites) == 0 {
		return
	}
	c := ins.(ssa.CallInstruction).Common()
	skey := staticKeyOf(c)
	direct := fr.isUnit
	for _, cs := range x.unit.Spec.CallSites {
		want := x.resolveCalleeName(x.unit.Spec.Pkg, cs.Callee)
		if want != ci.key && want != skey {
			continue
		}
		ord := 0
		if direct {
			ord = x.callOrdinal(ins, ci.key)
		}
		if cs.Ordinal != 0 && (!direct || cs.Ordinal != ord) {
			continue
		}
		env := x.unitEnv(st, fr)
		env.sitePos = ins.Pos()
		if !direct {
			env.frame = nil
		} else {
			// innermost loop around the call: "$i" is the number of completed iterations
			var best *loop
			for _, lp := range fr.loops.list {
				in := lp.body[ins.Block()] || lp.stmtPos.IsValid() && lp.stmtPos <= ins.Pos() && ins.Pos() < lp.stmtEnd
				if in && (best == nil || len(lp.body) < len(best.body)) {
					best = lp
				}
			}
			env.loop = best
			env.inBody = true
		}
		names := paramNames(ci, x.e.w.Contracts[ci.key])
		for i, n := range names {
			if i < len(args) {
				env.names["$"+n] = args[i]
				env.names["$"+strconv.Itoa(i)] = args[i]
			}
		}
		x.e.sawCallSite[cs] = true
		for i, cl := range cs.Asserts {
			detail := fmt.Sprintf("%s#%d:%s", shortKey(want), ord, clauseName(cl, i))
			text := cl.Text
			g := func() (g smt.Term) {
				// a clause that does not type-check against the arguments of the call it is attached to (the n-th call to
				// that callee is no longer the call the contract describes) fails; it is not an engine problem
				defer func() {
					if r := recover(); r != nil {
						if se, ok := r.(SpecError); ok {
							g = smt.False
							text += "   [the clause cannot be evaluated at this call: " + se.Msg + "]"
							return
						}
						panic(r)
					}
				}()
				return x.guardedGoal(env, cl.Expr)
			}()
			x.e.obligation(st, "callsite", detail, cl.Tag, text, cl.Pos.String(), g)
		}
		for _, cl := range cs.Assumes {
			st.assume(env.evalBool(cl.Expr))
			x.e.note("assumption of %s before the call to %s (invariant of shared state, not proved here): %s", x.unit.Name, shortKey(want), cl.Text)
		}
	}
}

// guardedGoal evaluates a goal; a reference to a call that did not happen on this path makes the clause false.
func (x *exec) guardedGoal(env *Env, e spec.Expr) (g smt.Term) {
	defer func() {
		if r := recover(); r != nil {
			if _, ok := r.(noSuchEvent); ok {
				g = smt.False
				return
			}
			panic(r)
		}
	}()
	return env.evalGoal(e)
}
