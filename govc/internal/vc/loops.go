package vc

import (
	"fmt"
	"go/ast"
	"go/token"
	"go/types"
	"sort"

	"golang.org/x/tools/go/ssa"
	"govc/internal/smt"
	"govc/internal/spec"
)

type loop struct {
	header  *ssa.BasicBlock
	body    map[*ssa.BasicBlock]bool
	ordinal int // 1-based, source order of the loop statements in the function
	label   string
	pos     token.Pos
	// range-over-slice/int loops: the hidden index alloc and the bound
	rangeIdx *ssa.Alloc
	stmtPos, stmtEnd token.Pos // extent of the for/range statement
	rangeLen ssa.Value
}

type loopInfo struct {
	byHeader  map[*ssa.BasicBlock]*loop
	inAnyLoop map[*ssa.BasicBlock]bool
	list      []*loop
}

func (x *exec) loopInfoOf(fn *ssa.Function) *loopInfo {
	if li, ok := x.loopsOf[fn]; ok {
		return li
	}
	li := analyzeLoops(fn)
	x.loopsOf[fn] = li
	return li
}

func analyzeLoops(fn *ssa.Function) *loopInfo {
	li := &loopInfo{byHeader: map[*ssa.BasicBlock]*loop{}, inAnyLoop: map[*ssa.BasicBlock]bool{}}
	if fn.Blocks == nil {
		return li
	}
	for _, b := range fn.Blocks {
		for _, s := range b.Succs {
			if s.Dominates(b) {
				// back edge b -> s
				lp := li.byHeader[s]
				if lp == nil {
					lp = &loop{header: s, body: map[*ssa.BasicBlock]bool{s: true}}
					li.byHeader[s] = lp
					li.list = append(li.list, lp)
				}
				// natural loop: nodes reaching b without passing s
				stack := []*ssa.BasicBlock{b}
				for len(stack) > 0 {
					n := stack[len(stack)-1]
					stack = stack[:len(stack)-1]
					if lp.body[n] {
						continue
					}
					lp.body[n] = true
					stack = append(stack, n.Preds...)
				}
			}
		}
	}
	for _, lp := range li.list {
		for b := range lp.body {
			li.inAnyLoop[b] = true
		}
		// position: smallest valid instruction position inside the loop
		for b := range lp.body {
			for _, ins := range b.Instrs {
				if p := ins.Pos(); p.IsValid() && (!lp.pos.IsValid() || p < lp.pos) {
					lp.pos = p
				}
			}
		}
		// range index pattern in the header: t = *idx; t2 = t + 1; *idx = t2; t3 = t2 < len; if t3
		for _, ins := range lp.header.Instrs {
			if st, ok := ins.(*ssa.Store); ok {
				if a, ok := st.Addr.(*ssa.Alloc); ok && a.Comment == "rangeindex" {
					lp.rangeIdx = a
				}
			}
			if iff, ok := ins.(*ssa.If); ok && lp.rangeIdx != nil {
				if bo, ok := iff.Cond.(*ssa.BinOp); ok && bo.Op == token.LSS {
					lp.rangeLen = bo.Y
				}
			}
		}
	}
	// ordinals: map loops to ForStmt/RangeStmt in source order
	if syn := fn.Syntax(); syn != nil {
		type stmt struct {
			pos, end token.Pos
			label    string
		}
		var stmts []stmt
		labels := map[ast.Stmt]string{}
		ast.Inspect(syn, func(n ast.Node) bool {
			switch s := n.(type) {
			case *ast.FuncLit:
				return n == syn
			case *ast.LabeledStmt:
				labels[s.Stmt] = s.Label.Name
			case *ast.ForStmt:
				stmts = append(stmts, stmt{s.Pos(), s.End(), labels[s]})
			case *ast.RangeStmt:
				stmts = append(stmts, stmt{s.Pos(), s.End(), labels[s]})
			}
			return true
		})
		sort.Slice(stmts, func(i, j int) bool { return stmts[i].pos < stmts[j].pos })
		for _, lp := range li.list {
			// innermost statement containing the loop position
			best := -1
			for i, s := range stmts {
				if s.pos <= lp.pos && lp.pos < s.end {
					if best < 0 || stmts[best].pos < s.pos {
						best = i
					}
				}
			}
			if best >= 0 {
				lp.ordinal = best + 1
				lp.label = stmts[best].label
				lp.stmtPos, lp.stmtEnd = stmts[best].pos, stmts[best].end
			}
		}
	}
	sort.Slice(li.list, func(i, j int) bool { return li.list[i].pos < li.list[j].pos })
	return li
}

// effects is the syntactic write set of a region of code.
type effects struct {
	locals map[*ssa.Alloc]bool
	keys   map[string]bool // heap key prefixes (every key with this prefix is written)
	all    bool            // some call may write anything
	calls  map[string]bool // callee keys
	globals map[*ssa.Global]bool
}

func newEffects() *effects {
	return &effects{locals: map[*ssa.Alloc]bool{}, keys: map[string]bool{}, calls: map[string]bool{}, globals: map[*ssa.Global]bool{}}
}

// addrKey computes the heap-key prefix an address expression designates, or marks a local/global.
func (x *exec) addrEffect(ef *effects, addr ssa.Value) {
	var path []string
	v := addr
	for {
		switch a := v.(type) {
		case *ssa.FieldAddr:
			st := types.Unalias(a.X.Type().Underlying().(*types.Pointer).Elem()).Underlying().(*types.Struct)
			path = append([]string{st.Field(a.Field).Name()}, path...)
			v = a.X
			continue
		case *ssa.IndexAddr:
			switch xt := types.Unalias(a.X.Type()).Underlying().(type) {
			case *types.Slice:
				k := memKeyPrefix(xt.Elem())
				for _, p := range path {
					k += "." + p
				}
				ef.keys[k] = true
				return
			case *types.Pointer:
				at := types.Unalias(xt.Elem()).Underlying().(*types.Array)
				if al, ok := a.X.(*ssa.Alloc); ok && !al.Heap {
					ef.locals[al] = true
					return
				}
				if g, ok := a.X.(*ssa.Global); ok {
					ef.globals[g] = true
					return
				}
				k := memKeyPrefix(at.Elem())
				for _, p := range path {
					k += "." + p
				}
				ef.keys[k] = true
				return
			}
			ef.all = true
			return
		case *ssa.Alloc:
			if !a.Heap {
				ef.locals[a] = true
				return
			}
		case *ssa.Global:
			ef.globals[a] = true
			return
		}
		break
	}
	pt, ok := types.Unalias(v.Type()).Underlying().(*types.Pointer)
	if !ok {
		ef.all = true
		return
	}
	k := objKeyPrefix(pt.Elem())
	for _, p := range path {
		k += "." + p
	}
	ef.keys[k] = true
}

// regionEffects summarises the writes of a set of blocks, following the same call policy as the executor.
func (x *exec) regionEffects(fn *ssa.Function, blocks map[*ssa.BasicBlock]bool, depth int, seen map[*ssa.Function]bool) *effects {
	ef := newEffects()
	for _, b := range fn.Blocks {
		if blocks != nil && !blocks[b] {
			continue
		}
		for _, ins := range b.Instrs {
			switch ins := ins.(type) {
			case *ssa.Store:
				x.addrEffect(ef, ins.Addr)
			case *ssa.Send:
				ef.calls["chan:send"] = true
			case *ssa.Select:
				ef.calls["chan:select"] = true
			case *ssa.UnOp:
				if ins.Op == token.ARROW {
					ef.calls["chan:recv"] = true
				}
			case *ssa.MapUpdate:
				mt := types.Unalias(ins.Map.Type()).Underlying().(*types.Map)
				ef.keys["map<"+typeKey(mt.Key())+","+typeKey(mt.Elem())+">"] = true
			case ssa.CallInstruction:
				x.callEffects(ef, ins, depth, seen)
			}
		}
	}
	return ef
}

func (x *exec) callEffects(ef *effects, ins ssa.CallInstruction, depth int, seen map[*ssa.Function]bool) {
	c := ins.Common()
	if _, isGo := ins.(*ssa.Go); isGo {
		ef.calls[staticKeyOf(c)] = true
		return
	}
	if b, ok := c.Value.(*ssa.Builtin); ok {
		switch b.Name() {
		case "append", "copy":
			if sl, ok := types.Unalias(c.Args[0].Type()).Underlying().(*types.Slice); ok {
				ef.keys[memKeyPrefix(sl.Elem())] = true
			}
		case "clear":
			if mt, ok := types.Unalias(c.Args[0].Type()).Underlying().(*types.Map); ok {
				ef.keys["map<"+typeKey(mt.Key())+","+typeKey(mt.Elem())+">"] = true
			}
		case "delete":
			mt := types.Unalias(c.Args[0].Type()).Underlying().(*types.Map)
			ef.keys["map<"+typeKey(mt.Key())+","+typeKey(mt.Elem())+">"] = true
		}
		return
	}
	var key string
	var fn *ssa.Function
	if c.IsInvoke() {
		key = MethodKey(c.Method)
	} else if f := c.StaticCallee(); f != nil {
		key = FuncKey(f)
		fn = f
	} else if a := varOf(c.Value); a != nil {
		if st := storesTo(a); len(st) == 1 {
			switch s := st[0].(type) {
			case *ssa.MakeClosure:
				fn = s.Fn.(*ssa.Function)
				key = FuncKey(fn)
			case *ssa.Function:
				fn = s
				key = FuncKey(fn)
			}
		}
	}
	if key == "" {
		if n := dynName(c.Value); n != "" && x.unit != nil && x.unit.Spec != nil && x.unit.Spec.DynCalls[n] != "" {
			ef.calls["var:"+n] = true
			return
		}
		ef.all = true
		ef.calls["dynamic"] = true
		return
	}
	ef.calls[key] = true
	if isIntrinsicKey(key) {
		// writes the receiver's field(s)
		if len(c.Args) > 0 {
			x.addrEffect(ef, c.Args[0])
		}
		return
	}
	if fs := x.e.w.Contracts[key]; fs != nil && !(fs.Inline && fn != nil && fn.Blocks != nil) {
		if fs.Pure || fs.NoEffect {
			return
		}
		if fs.ModAll {
			ef.all = true
			return
		}
		for _, m := range fs.Modifies {
			k, ok := x.modKey(fs, fn, c, m)
			if !ok {
				ef.all = true
				return
			}
			ef.keys[k] = true
		}
		return
	}
	if fn != nil && fn.Blocks != nil && x.e.w.Prog.InModule(pkgPathOf(fn)) && depth < maxInlineDepth && !seen[fn] {
		seen[fn] = true
		sub := x.regionEffects(fn, nil, depth+1, seen)
		delete(seen, fn)
		for k := range sub.keys {
			ef.keys[k] = true
		}
		for k := range sub.calls {
			ef.calls[k] = true
		}
		for g := range sub.globals {
			ef.globals[g] = true
		}
		// locals of the callee are not visible, but captured variables written by closures are heap cells (keys)
		if sub.all {
			ef.all = true
		}
		return
	}
	ef.all = true
}

func isIntrinsicKey(key string) bool {
	switch {
	case len(key) > 14 && key[:14] == "(*sync/atomic.":
		return true
	case key == "(*sync.Mutex).Lock" || key == "(*sync.Mutex).Unlock" || key == "(*sync.RWMutex).Lock" || key == "(*sync.RWMutex).Unlock" ||
		key == "(*sync.RWMutex).RLock" || key == "(*sync.RWMutex).RUnlock" || key == "(*sync.Mutex).TryLock":
		return true
	}
	return false
}

// modKey computes the heap-key prefix a modifies expression of a callee contract designates, using static types only.
func (x *exec) modKey(fs *spec.FuncSpec, fn *ssa.Function, c *ssa.CallCommon, m spec.Expr) (string, bool) {
	t, path, ok := x.staticTypeOfSpecLval(fs, fn, c, m)
	if !ok {
		return "", false
	}
	return t + path, true
}

// staticTypeOfSpecLval resolves "a.b.c" / "Mem(a.b)" against static parameter types.
func (x *exec) staticTypeOfSpecLval(fs *spec.FuncSpec, fn *ssa.Function, c *ssa.CallCommon, m spec.Expr) (string, string, bool) {
	// parameter name -> static type
	names := map[string]types.Type{}
	var ci calleeInfo
	if c.IsInvoke() {
		ci = calleeInfo{method: c.Method, sig: c.Method.Type().(*types.Signature)}
		ns := paramNames(ci, fs)
		names[ns[0]] = c.Value.Type()
		for i := 1; i < len(ns) && i-1 < ci.sig.Params().Len(); i++ {
			names[ns[i]] = ci.sig.Params().At(i - 1).Type()
		}
	} else if fn != nil {
		ci = calleeInfo{fn: fn, sig: fn.Signature}
		ns := paramNames(ci, fs)
		if len(fn.Params) > 0 {
			for i, p := range fn.Params {
				if i < len(ns) {
					names[ns[i]] = p.Type()
				}
			}
		} else {
			i := 0
			if fn.Signature.Recv() != nil {
				names[ns[0]] = fn.Signature.Recv().Type()
				i = 1
			}
			for j := 0; j < fn.Signature.Params().Len() && i+j < len(ns); j++ {
				names[ns[i+j]] = fn.Signature.Params().At(j).Type()
			}
		}
	} else {
		return "", "", false
	}
	var typeOf func(e spec.Expr) (types.Type, bool)
	typeOf = func(e spec.Expr) (types.Type, bool) {
		switch e := e.(type) {
		case *spec.Ident:
			t, ok := names[e.Name]
			return t, ok
		case *spec.Call:
			if id, ok := e.Fun.(*spec.Ident); ok && id.Name == "unbox" && len(e.Args) == 2 {
				if te, ok := e.Args[1].(*spec.TypeExpr); ok {
					env := x.newEnv(&State{}, fs)
					return env.resolveType(te), true
				}
			}
			return nil, false
		case *spec.Sel:
			bt, ok := typeOf(e.X)
			if !ok {
				return nil, false
			}
			if p, ok := types.Unalias(bt).Underlying().(*types.Pointer); ok {
				bt = p.Elem()
			}
			if i := fieldIndex(bt, e.Name); i >= 0 {
				return types.Unalias(bt).Underlying().(*types.Struct).Field(i).Type(), true
			}
			if len(e.Name) > 0 && e.Name[0] == '$' {
				// ghost field: its declared type (only "ref" matters here: Mem(x.$ghostref))
				if g := x.e.w.Ghosts[e.Name]; g != nil && g.Type != nil && g.Type.Name == "ref" {
					return types.Typ[types.UnsafePointer], true
				}
			}
			return nil, false
		}
		return nil, false
	}
	switch m := m.(type) {
	case *spec.Cond:
		return x.staticTypeOfSpecLval(fs, fn, c, m.A)
	case *spec.Sel:
		bt, ok := typeOf(m.X)
		if !ok {
			return "", "", false
		}
		if p, ok := types.Unalias(bt).Underlying().(*types.Pointer); ok {
			bt = p.Elem()
		}
		// nested value structs are not resolved here (prefix match suffices: use the innermost pointer target)
		return objKeyPrefix(bt), "." + m.Name, true
	case *spec.Call:
		if id, ok := m.Fun.(*spec.Ident); ok && id.Name == "MapOf" && len(m.Args) == 1 {
			if bt, ok := typeOf(m.Args[0]); ok {
				if mt, ok := types.Unalias(bt).Underlying().(*types.Map); ok {
					base := "map<" + typeKey(mt.Key()) + "," + typeKey(mt.Elem()) + ">"
					return base, "", true
				}
			}
			return "", "", false
		}
		if id, ok := m.Fun.(*spec.Ident); ok && id.Name == "Mem" && len(m.Args) == 1 {
			bt, ok := typeOf(m.Args[0])
			if !ok {
				return "", "", false
			}
			if sl, ok := types.Unalias(bt).Underlying().(*types.Slice); ok {
				return memKeyPrefix(sl.Elem()), "", true
			}
			if b, ok := types.Unalias(bt).Underlying().(*types.Basic); ok && b.Kind() == types.UnsafePointer {
				return memKeyPrefix(types.Universe.Lookup("byte").Type()), "", true
			}
		}
	case *spec.SliceEx:
		return x.staticTypeOfSpecLval(fs, fn, c, m.X)
	case *spec.Index:
		return x.staticTypeOfSpecLval(fs, fn, c, m.X)
	}
	return "", "", false
}

// loopSpecOf finds the contract clauses of a loop of the unit function.
func (x *exec) loopSpecOf(fr *Frame, lp *loop) *spec.LoopSpec {
	if !fr.isUnit || x.unit == nil || x.unit.Spec == nil {
		return nil
	}
	for _, ls := range x.unit.Spec.Loops {
		if ls.Label != "" && ls.Label == lp.label || ls.Label == "" && ls.Ordinal == lp.ordinal {
			return ls
		}
	}
	return nil
}

func (x *exec) loopName(fr *Frame, lp *loop) string {
	n := fmt.Sprintf("L%d", lp.ordinal)
	if lp.label != "" {
		n = lp.label
	}
	if !fr.isUnit {
		n = "@" + shortKey(FuncKey(fr.fn)) + ":" + n
	}
	return n
}

// autoInvariant returns the built-in invariant of range loops: -1 <= idx < len.
func (x *exec) autoInvariant(st *State, fr *Frame, lp *loop) smt.Term {
	if lp.rangeIdx == nil || lp.rangeLen == nil {
		return smt.True
	}
	idx, ok := st.locals[lp.rangeIdx]
	if !ok {
		return smt.True
	}
	ln, ok := st.regs[lp.rangeLen]
	if !ok {
		if c, isC := lp.rangeLen.(*ssa.Const); isC {
			ln = x.e.constValue(c)
		} else {
			return smt.True
		}
	}
	return smt.And(smt.BVCmp("bvsle", smt.BVLit(^uint64(0), 64), idx.one()), smt.BVCmp("bvslt", idx.one(), ln.one()),
		smt.BVCmp("bvsle", zero64, ln.one()))
}

// loopEnter handles the entry edge of a loop: assert invariants, havoc, assume invariants.
// It returns false when the path should stop.
func (x *exec) loopEnter(st *State, fr *Frame, lp *loop) bool {
	e := x.e
	ls := x.loopSpecOf(fr, lp)
	name := x.loopName(fr, lp)
	// 1. invariants hold on entry
	var env *Env
	if ls != nil {
		env = x.unitEnv(st, fr)
		env.loop = lp
		for i, cl := range ls.Invariants {
			g := env.evalGoal(cl.Expr)
			e.obligation(st, "inv-entry", name+":"+clauseName(cl, i), cl.Tag, cl.Text, cl.Pos.String(), g)
		}
	}
	auto := x.autoInvariant(st, fr, lp)
	if !auto.IsTrue() {
		e.obligation(st, "inv-entry", name+":range-index", "", "range index within bounds", "", auto)
	}
	// 2. havoc what the loop writes
	ef := x.regionEffects(fr.fn, lp.body, fr.depth, map[*ssa.Function]bool{fr.fn: true})
	if ef.all {
		e.havocAll(st)
	} else {
		framed := fr.isUnit && x.unit != nil && x.unit.Spec != nil && !x.unit.Spec.ModAll && x.unit.Spec.Opts["noframe"] == "" && st.gen == 0
		for _, k := range sortedKeys(ef.keys) {
			x.havocPrefix(st, k, framed)
		}
		for g := range ef.globals {
			if st.globals == nil {
				st.globals = map[*ssa.Global]Value{}
			}
			t := g.Type().(*types.Pointer).Elem()
			nv := e.fresh("lg_"+g.Name(), t)
			e.assumeValid(st, nv)
			st.globals[g] = nv
		}
	}
	// the visited sets of map iterations driven inside the loop
	for _, b := range fr.fn.Blocks {
		if !lp.body[b] {
			continue
		}
		for _, ins := range b.Instrs {
			if nx, ok := ins.(*ssa.Next); ok && !nx.IsString {
				if r, ok := nx.Iter.(*ssa.Range); ok {
					key := "$visited#" + x.rangeID(r)
					if v, have := st.ghostLocals[key]; have {
						st.ghostLocals[key] = Value{L: []smt.Term{e.ctx.Fresh("visited", v.L[0].Sort)}}
					}
				}
			}
		}
	}
	var locals []*ssa.Alloc
	for a := range ef.locals {
		locals = append(locals, a)
	}
	sort.Slice(locals, func(i, j int) bool { return locals[i].Pos() < locals[j].Pos() })
	for _, a := range locals {
		if _, live := st.locals[a]; !live {
			continue
		}
		nv := e.fresh("lv_"+allocHint(a), a.Type().(*types.Pointer).Elem())
		if cur := st.locals[a]; cur.P != nil {
			unsupported("loop modifies pointer-valued local %s holding a static pointer", a.Comment)
		}
		e.assumeValid(st, nv)
		st.locals[a] = nv
	}
	// calls made inside the loop: the trace counts become symbolic
	for _, k := range sortedKeys(ef.calls) {
		if st.callBase == nil {
			st.callBase = map[string]smt.Term{}
		}
		n := e.ctx.Fresh("ncalls", bv64)
		st.assume(smt.BVCmp("bvsge", n, zero64))
		st.assume(smt.BVCmp("bvsle", n, smt.BVLit(1<<40, 64))) // call counts stay far below 2^63
		st.callBase[k] = smt.BVBin("bvadd", x.callCount(st, k), n)
		// drop concrete events for that key (their count is in the base now)
		var kept []*Event
		for _, ev := range st.trace {
			if ev.Key != k {
				kept = append(kept, ev)
			}
		}
		// keep the events themselves so that arg() of earlier calls still works; mark counted
		st.trace = kept
	}
	if ef.calls["dynamic"] || ef.all && len(ef.calls) == 0 {
		st.unknownCalls = true
	}
	// 3. assume invariants
	if ls != nil {
		env = x.unitEnv(st, fr)
		env.loop = lp
		for _, cl := range ls.Invariants {
			st.assume(env.evalBool(cl.Expr))
		}
		for _, cl := range ls.Assumes {
			st.assume(env.evalBool(cl.Expr))
			e.note("loop assumption in %s (assumed at the loop head, not proved): %s", x.unit.Name, cl.Text)
		}
		if ls.Decreases != nil {
			if st.measure == nil {
				st.measure = map[*ssa.BasicBlock]smt.Term{}
			}
			st.measure[lp.header] = e.ctx.Name("measure", env.evalInt64(ls.Decreases.Expr))
		}
	}
	st.assume(x.autoInvariant(st, fr, lp))
	return true
}

// loopBack handles a back edge: the invariants must hold again; the path ends.
func (x *exec) loopBack(st *State, fr *Frame, lp *loop) {
	e := x.e
	ls := x.loopSpecOf(fr, lp)
	name := x.loopName(fr, lp)
	if ls != nil {
		env := x.unitEnv(st, fr)
		env.loop = lp
		for i, cl := range ls.Invariants {
			g := env.evalGoal(cl.Expr)
			e.obligation(st, "inv-keep", name+":"+clauseName(cl, i), cl.Tag, cl.Text, cl.Pos.String(), g)
		}
		if ls.Decreases != nil {
			m0, ok := st.measure[lp.header]
			if ok {
				m1 := env.evalInt64(ls.Decreases.Expr)
				g := smt.And(smt.BVCmp("bvsge", m0, zero64), smt.BVCmp("bvslt", m1, m0))
				e.obligation(st, "decreases", name, ls.Decreases.Tag, ls.Decreases.Text, ls.Decreases.Pos.String(), g)
			}
		}
	}
	auto := x.autoInvariant(st, fr, lp)
	if !auto.IsTrue() {
		e.obligation(st, "inv-keep", name+":range-index", "", "range index within bounds", "", auto)
	}
	if fr.isUnit && x.unit != nil {
		x.frameCheck(st, x.unit, " (at the back edge of "+name+")")
	}
}

// havocPrefix replaces every known heap array whose key has the given prefix by a fresh one.
func (x *exec) havocPrefix(st *State, prefix string, framed bool) {
	e := x.e
	// make sure arrays of that prefix that were never touched are registered: keys are registered lazily on
	// first access, so an untouched key needs no havoc now, but a later first access must not see the old
	// generation. We therefore record the prefix in the state.
	for _, k := range sortedKeys(e.heapKeys) {
		if k == prefix || len(k) > len(prefix) && k[:len(prefix)] == prefix && (k[len(prefix)] == '.' || k[len(prefix)] == '>') {
			hk := e.heapKeys[k]
			if framed {
				x.framedHavoc(st, x.unit, k)
				continue
			}
			st.heap[k] = e.ctx.Fresh("Hl<"+k+">", smt.ArrayOf(hk.Idx, hk.Elem))
		}
	}
	st.havocked = append(st.havocked, havocMark{prefix, e.nextMark(), framed})
}

type havocMark struct {
	prefix string
	id     int
	framed bool // the havoc was a framed one: arrays of the prefix first touched later still agree with the entry state outside the unit's frame
}

func (e *Engine) nextMark() int { e.markCounter++; return e.markCounter }
