package vc

import (
	"fmt"
	"time"
	"go/ast"
	"go/token"
	"go/types"
	"os"
	"path/filepath"
	"sort"
	"strings"

	"golang.org/x/tools/go/ssa"
	"govc/internal/load"
	"govc/internal/smt"
	"govc/internal/spec"
)

// World is everything that is shared by all units: program, contracts.
type World struct {
	Prog      *load.Program
	Files     []*spec.File
	Contracts map[string]*spec.FuncSpec // by canonical key
	SpecFuncs map[string]*spec.SpecFunc // by pkg-qualified name and by bare name
	Ghosts    map[string]*spec.GhostField
	Axioms    []*spec.Axiom
	Lemmas    []*spec.Lemma
	Events    []*spec.EventDecl
	Reps      []*spec.Represents
	TypeInvs  map[string]*spec.TypeInv // by type key of the pointer type ("*pkg.T")
	typeInvAllocs map[string][]string  // type key -> keys of the functions that allocate the struct
	funcByKey map[string]*ssa.Function
	allFuncs  []*ssa.Function
	immutable map[*ssa.Global]bool
	Problems  []string // contract resolution problems (stale contracts etc.)
	typesPkgs map[string]*types.Package
	mutableFields map[string]bool // heap-key prefixes (Type.field) of module struct fields assigned outside construction
	moduleStructs map[string]*types.Struct
}

// TypesPkg finds a (possibly external) package by import path among everything the module imports.
func (w *World) TypesPkg(path string) *types.Package {
	if w.typesPkgs == nil {
		w.typesPkgs = map[string]*types.Package{}
		var visit func(p *types.Package)
		visit = func(p *types.Package) {
			if p == nil || w.typesPkgs[p.Path()] != nil {
				return
			}
			w.typesPkgs[p.Path()] = p
			for _, q := range p.Imports() {
				visit(q)
			}
		}
		for _, pk := range w.Prog.Pkgs {
			visit(pk.Types)
		}
	}
	return w.typesPkgs[path]
}

// FuncKey is the canonical key of a function.
func FuncKey(f *ssa.Function) string {
	if o := f.Origin(); o != nil {
		f = o
	}
	if f.Parent() != nil {
		// closure: parent key + "$n"
		name := f.Name() // e.g. MaybeUpgrade$1
		if i := strings.LastIndex(name, "$"); i >= 0 {
			return FuncKey(f.Parent()) + name[i:]
		}
		return FuncKey(f.Parent()) + "$" + name
	}
	if recv := f.Signature.Recv(); recv != nil {
		return "(" + recvTypeKey(recv.Type()) + ")." + f.Name()
	}
	if f.Pkg != nil {
		return f.Pkg.Pkg.Path() + "." + f.Name()
	}
	if f.Object() != nil && f.Object().Pkg() != nil {
		return f.Object().Pkg().Path() + "." + f.Name()
	}
	return f.String()
}

// recvTypeKey renders a receiver type without type arguments: *pkg/path.T
func recvTypeKey(t types.Type) string {
	t = types.Unalias(t)
	star := ""
	if p, ok := t.(*types.Pointer); ok {
		star = "*"
		t = types.Unalias(p.Elem())
	}
	if n, ok := t.(*types.Named); ok {
		o := n.Obj()
		if o.Pkg() != nil {
			return star + o.Pkg().Path() + "." + o.Name()
		}
		return star + o.Name()
	}
	return star + typeKey(t)
}

// MethodKey is the canonical key of an interface method or of a method given by a types.Func.
func MethodKey(fn *types.Func) string {
	sig := fn.Type().(*types.Signature)
	if fn.Origin() != nil {
		fn = fn.Origin()
		sig = fn.Type().(*types.Signature)
	}
	if recv := sig.Recv(); recv != nil {
		rt := types.Unalias(recv.Type())
		if _, ok := rt.Underlying().(*types.Interface); ok {
			if n, ok := rt.(*types.Named); ok && n.Obj().Pkg() != nil {
				return "(" + n.Obj().Pkg().Path() + "." + n.Obj().Name() + ")." + fn.Name()
			}
			// method of an embedded/anonymous interface: use the declaring package
			if fn.Pkg() != nil {
				return "(" + fn.Pkg().Path() + ".?)." + fn.Name()
			}
		}
		return "(" + recvTypeKey(recv.Type()) + ")." + fn.Name()
	}
	if fn.Pkg() != nil {
		return fn.Pkg().Path() + "." + fn.Name()
	}
	return fn.Name()
}

// NewWorld loads contracts (in-repo comment files and external .spec files).
func NewWorld(prog *load.Program, specDir string) (*World, error) {
	w := &World{
		Prog:      prog,
		Contracts: map[string]*spec.FuncSpec{},
		SpecFuncs: map[string]*spec.SpecFunc{},
		Ghosts:    map[string]*spec.GhostField{},
		funcByKey: map[string]*ssa.Function{},
		immutable: map[*ssa.Global]bool{},
	}
	// index functions of the module
	for _, pk := range prog.Pkgs {
		sp := prog.SSAPkg[pk.PkgPath]
		if sp == nil {
			continue
		}
		var walk func(f *ssa.Function)
		walk = func(f *ssa.Function) {
			if f == nil || f.Synthetic != "" && f.Blocks == nil {
				return
			}
			k := FuncKey(f)
			if _, dup := w.funcByKey[k]; !dup {
				w.funcByKey[k] = f
				w.allFuncs = append(w.allFuncs, f)
			}
			for _, a := range f.AnonFuncs {
				walk(a)
			}
		}
		for _, m := range sp.Members {
			switch m := m.(type) {
			case *ssa.Function:
				walk(m)
			case *ssa.Type:
				nt, ok := m.Type().(*types.Named)
				if !ok {
					continue
				}
				for i := 0; i < nt.NumMethods(); i++ {
					walk(prog.SSA.FuncValue(nt.Method(i)))
				}
			}
		}
	}
	// contract files
	var files []string
	for _, pk := range prog.Pkgs {
		for _, gf := range pk.GoFiles {
			if strings.HasSuffix(gf, "_verif.go") {
				files = append(files, gf+"\x00"+pk.PkgPath)
			}
		}
		// comment-only files are "ignored" by go list when they have the tag but no code? they still have a package clause, so they are listed.
		for _, gf := range pk.IgnoredFiles {
			if strings.HasSuffix(gf, "_verif.go") {
				files = append(files, gf+"\x00"+pk.PkgPath)
			}
		}
	}
	if specDir != "" {
		ms, _ := filepath.Glob(filepath.Join(specDir, "*.spec"))
		sort.Strings(ms)
		for _, m := range ms {
			files = append(files, m+"\x00")
		}
	}
	for _, fp := range files {
		parts := strings.SplitN(fp, "\x00", 2)
		f, err := spec.ParseFile(parts[0], parts[1])
		if err != nil {
			return nil, err
		}
		w.Files = append(w.Files, f)
		for _, fs := range f.Funcs {
			key, err := w.resolveRef(f, fs.Ref)
			if err != nil {
				w.Problems = append(w.Problems, fmt.Sprintf("%s: %v", fs.Pos, err))
				continue
			}
			fs.Key = key
			if old, dup := w.Contracts[key]; dup {
				w.Problems = append(w.Problems, fmt.Sprintf("%s: duplicate contract for %s (first at %s)", fs.Pos, key, old.Pos))
				continue
			}
			w.Contracts[key] = fs
		}
		for _, tn := range f.Stable {
			w.addStableGetters(f, tn)
		}
		for _, sf := range f.Specs {
			w.SpecFuncs[sf.Name] = sf
		}
		for _, g := range f.Ghosts {
			w.Ghosts[g.Recv+"."+g.Name] = g
			w.Ghosts[g.Name] = g
		}
		w.Reps = append(w.Reps, f.Reps...)
		for _, ti := range f.TypeInvs {
			if w.TypeInvs == nil {
				w.TypeInvs = map[string]*spec.TypeInv{}
			}
			impl := strings.TrimSuffix(strings.TrimPrefix(ti.Recv, "("), ")")
			star := strings.HasPrefix(impl, "*")
			impl = strings.TrimPrefix(impl, "*")
			full := ti.Pkg + "." + impl
			if star {
				full = "*" + full
			}
			w.TypeInvs[full] = ti
		}
		w.Axioms = append(w.Axioms, f.Axioms...)
		w.Lemmas = append(w.Lemmas, f.Lemmas...)
		w.Events = append(w.Events, f.Events...)
	}
	// footprints: named location lists, expanded where they are used
	fps := map[string]*spec.Footprint{}
	for _, f := range w.Files {
		for _, fp := range f.Footprints {
			fps[fp.Name] = fp
		}
	}
	if len(fps) > 0 {
		expand := func(pos spec.Pos, locs []spec.Expr) []spec.Expr {
			out, err := spec.ExpandFootprints(locs, fps)
			if err != nil {
				w.Problems = append(w.Problems, fmt.Sprintf("%s: %v", pos, err))
				return locs
			}
			return out
		}
		for _, f := range w.Files {
			for _, fs := range f.Funcs {
				fs.Modifies = expand(fs.Pos, fs.Modifies)
				for _, mo := range fs.Monitors {
					mo.Guards = expand(mo.Pos, mo.Guards)
				}
				for _, re := range fs.Reenter {
					re.Mods = expand(re.Pos, re.Mods)
				}
				for _, ls := range fs.Loops {
					ls.Modifies = expand(fs.Pos, ls.Modifies)
				}
			}
		}
	}
	for _, f := range w.Files {
		for _, pr := range f.Privates {
			w.checkPrivate(pr)
		}
	}
	w.findImmutableGlobals()
	w.findMutableFields()
	w.TypesPkg("io") // build the package index before units run concurrently
	return w, nil
}

// addStableGetters synthesises "stable, no effect" contracts for the getters of an interface type:
// methods without parameters, with one result, whose name does not start with "Set".
func (w *World) addStableGetters(f *spec.File, tn string) {
	tn = strings.TrimSpace(tn)
	path, name := f.Pkg, tn
	if i := strings.LastIndex(tn, "."); i >= 0 {
		q := tn[:i]
		name = tn[i+1:]
		path = q
		if full, ok := f.Imports[q]; ok {
			path = full
		} else if pk := w.Prog.All[f.Pkg]; pk != nil && pk.Types != nil {
			for _, imp := range pk.Types.Imports() {
				if imp.Name() == q {
					path = imp.Path()
				}
			}
		}
	}
	tp := w.TypesPkg(path)
	if tp == nil {
		w.Problems = append(w.Problems, fmt.Sprintf("%s: stablegetters: unknown package of %s", f.Path, tn))
		return
	}
	obj, ok := tp.Scope().Lookup(name).(*types.TypeName)
	if !ok {
		w.Problems = append(w.Problems, fmt.Sprintf("%s: stablegetters: unknown type %s", f.Path, tn))
		return
	}
	it, ok := obj.Type().Underlying().(*types.Interface)
	if !ok {
		w.Problems = append(w.Problems, fmt.Sprintf("%s: stablegetters: %s is not an interface", f.Path, tn))
		return
	}
	for i := 0; i < it.NumMethods(); i++ {
		m := it.Method(i)
		sig := m.Type().(*types.Signature)
		if sig.Params().Len() != 0 || sig.Results().Len() != 1 || strings.HasPrefix(m.Name(), "Set") {
			continue
		}
		key := MethodKey(m)
		if _, dup := w.Contracts[key]; dup {
			continue
		}
		w.Contracts[key] = &spec.FuncSpec{Ref: key, Key: key, NoEffect: true, External: true, Trusted: "stable getter of " + tn,
			Opts: map[string]string{"stable": "true"}, Pkg: f.Pkg, Pos: spec.Pos{File: f.Path}}
	}
}

// resolveRef canonicalises a function reference written in a contract file.
//
//	F                  package-level function of the file's package
//	(*T).m, (T).m, T.m method (T may be an interface)
//	F.name / F$n       closure of F by variable name / ordinal
//	path/pkg.F, (*path/pkg.T).m for external functions
func (w *World) resolveRef(f *spec.File, ref string) (string, error) {
	ref = strings.TrimSpace(ref)
	qualify := func(name string) string {
		// name is T or pkg.T or path/pkg.T
		if strings.Contains(name, ".") {
			i := strings.LastIndex(name, ".")
			q := name[:i]
			if full, ok := f.Imports[q]; ok {
				return full + "." + name[i+1:]
			}
			if f.Pkg != "" {
				if pk := w.Prog.All[f.Pkg]; pk != nil {
					for _, sf := range pk.Syntax {
						for _, is := range sf.Imports {
							if is.Name != nil && is.Name.Name == q {
								return strings.Trim(is.Path.Value, "\"") + "." + name[i+1:]
							}
						}
					}
					// two imported packages may share a name (engine.io/v2/webtransport and webtransport-go): the choice
					// must not depend on map order; the lexically first path wins, the other one needs an import alias
					var ipaths []string
					for path := range pk.Imports {
						ipaths = append(ipaths, path)
					}
					sort.Strings(ipaths)
					for _, path := range ipaths {
						if imp := pk.Imports[path]; imp.Name == q || path == q {
							return path + "." + name[i+1:]
						}
					}
					if pk.Types != nil {
						for _, imp := range pk.Types.Imports() {
							if imp.Name() == q {
								return imp.Path() + "." + name[i+1:]
							}
						}
					}
				}
			}
			return name
		}
		if f.Pkg != "" {
			return f.Pkg + "." + name
		}
		return name
	}
	qualify0 := qualify
	qualify = func(name string) string {
		// an alias (types.BufferInterface = parser types.BufferInterface) names the type it stands for
		q := qualify0(name)
		if i := strings.LastIndex(q, "."); i > 0 {
			if tp := w.TypesPkg(q[:i]); tp != nil {
				if tn, ok := tp.Scope().Lookup(q[i+1:]).(*types.TypeName); ok && tn.IsAlias() {
					if n, ok := types.Unalias(tn.Type()).(*types.Named); ok && n.Obj().Pkg() != nil {
						return n.Obj().Pkg().Path() + "." + n.Obj().Name()
					}
				}
			}
		}
		return q
	}
	var base, rest string
	if strings.HasPrefix(ref, "(") {
		i := strings.Index(ref, ")")
		if i < 0 {
			return "", fmt.Errorf("bad function reference %q", ref)
		}
		recv := strings.TrimSpace(ref[1:i])
		star := ""
		if strings.HasPrefix(recv, "*") {
			star = "*"
			recv = recv[1:]
		}
		tail := strings.TrimPrefix(ref[i+1:], ".")
		parts := strings.SplitN(tail, ".", 2)
		base = "(" + star + qualify(recv) + ")." + splitDollar(parts[0])[0]
		rest = strings.TrimPrefix(tail, splitDollar(parts[0])[0])
	} else {
		// F, F.closure, T.m, pkg.F, pkg.T.m
		segs := strings.Split(ref, ".")
		// find the longest prefix that names a package-level function or a type
		found := false
		for n := len(segs); n >= 1 && !found; n-- {
			head := strings.Join(segs[:n], ".")
			h0 := splitDollar(head)[0]
			q := qualify(h0)
			if _, ok := w.funcByKey[q]; ok || w.externalFuncExists(q) {
				base = q
				rest = strings.TrimPrefix(ref, h0)
				found = true
				break
			}
			// type?
			if n < len(segs) {
				if w.typeExists(q) {
					m := splitDollar(segs[n])[0]
					base = "(" + q + ")." + m
					rest = strings.TrimPrefix(strings.TrimPrefix(ref, head+"."), m)
					// pointer receiver? prefer whichever exists
					if _, ok := w.funcByKey[base]; !ok {
						if _, ok := w.funcByKey["(*"+q+")."+m]; ok {
							base = "(*" + q + ")." + m
						}
					}
					found = true
					break
				}
			}
		}
		if !found {
			// external reference taken literally
			base = qualify(splitDollar(segs[0])[0])
			if len(segs) > 1 {
				base = qualify(strings.Join(segs[:2], "."))
				rest = strings.TrimPrefix(ref, strings.Join(segs[:2], "."))
			} else {
				rest = strings.TrimPrefix(ref, splitDollar(segs[0])[0])
			}
		}
	}
	// closures: rest is like ".onPacket", "$1", ".onPacket$2", "$1$2"
	key := base
	for rest != "" {
		switch rest[0] {
		case '$':
			j := 1
			for j < len(rest) && rest[j] >= '0' && rest[j] <= '9' {
				j++
			}
			key += rest[:j]
			rest = rest[j:]
		case '.':
			j := 1
			for j < len(rest) && rest[j] != '.' && rest[j] != '$' {
				j++
			}
			name := rest[1:j]
			parent := w.funcByKey[key]
			if parent == nil {
				return "", fmt.Errorf("contract for %q: no function %s", ref, key)
			}
			c := w.closureByVar(parent, name)
			if c == nil {
				return "", fmt.Errorf("contract for %q: %s has no closure bound to variable %q", ref, key, name)
			}
			key = FuncKey(c)
			rest = rest[j:]
		default:
			return "", fmt.Errorf("bad function reference %q", ref)
		}
	}
	if f.Pkg != "" && !f.External {
		if _, ok := w.funcByKey[key]; !ok && !w.isInterfaceMethodKey(key) {
			return "", fmt.Errorf("contract for %q: no such function in the current tree (%s)", ref, key)
		}
	}
	return key, nil
}

func splitDollar(s string) []string {
	if i := strings.Index(s, "$"); i >= 0 {
		return []string{s[:i], s[i:]}
	}
	return []string{s}
}

func (w *World) externalFuncExists(q string) bool { return false }

// externalKeyPlausible accepts keys of functions or methods of packages outside the module (which have no entry in
// funcByKey): the package must be one the module imports and the function or method must exist there.
func (w *World) externalKeyPlausible(key string) bool {
	k := key
	method := ""
	if strings.HasPrefix(k, "(") {
		i := strings.Index(k, ")")
		if i < 0 {
			return false
		}
		method = strings.TrimPrefix(k[i+1:], ".")
		k = strings.TrimPrefix(k[1:i], "*")
	}
	j := strings.LastIndex(k, ".")
	if j < 0 {
		return false
	}
	tp := w.TypesPkg(k[:j])
	if tp == nil || w.Prog.InModule(tp.Path()) {
		return false
	}
	obj := tp.Scope().Lookup(k[j+1:])
	if obj == nil {
		return false
	}
	if method == "" {
		_, ok := obj.(*types.Func)
		return ok
	}
	tn, ok := obj.(*types.TypeName)
	if !ok {
		return false
	}
	m, _, _ := types.LookupFieldOrMethod(types.NewPointer(tn.Type()), true, tp, method)
	if m == nil {
		m, _, _ = types.LookupFieldOrMethod(tn.Type(), true, tp, method)
	}
	_, ok = m.(*types.Func)
	return ok
}

func (w *World) typeExists(q string) bool {
	i := strings.LastIndex(q, ".")
	if i < 0 {
		return false
	}
	tp := w.TypesPkg(q[:i])
	if tp == nil {
		return false
	}
	_, ok := tp.Scope().Lookup(q[i+1:]).(*types.TypeName)
	return ok
}

func (w *World) isInterfaceMethodKey(key string) bool {
	if !strings.HasPrefix(key, "(") {
		return false
	}
	i := strings.Index(key, ")")
	tn := strings.TrimPrefix(key[1:i], "*")
	j := strings.LastIndex(tn, ".")
	if j < 0 {
		return false
	}
	tp := w.TypesPkg(tn[:j])
	if tp == nil {
		return false
	}
	o, ok := tp.Scope().Lookup(tn[j+1:]).(*types.TypeName)
	if !ok {
		return false
	}
	it, ok := o.Type().Underlying().(*types.Interface)
	if !ok {
		return false
	}
	m := strings.TrimPrefix(key[i+1:], ".")
	for k := 0; k < it.NumMethods(); k++ {
		if it.Method(k).Name() == m {
			return true
		}
	}
	return false
}

// closureByVar finds the anonymous function of parent that is bound to variable name.
func (w *World) closureByVar(parent *ssa.Function, name string) *ssa.Function {
	var found *ssa.Function
	count := 0
	for _, b := range parent.Blocks {
		for _, ins := range b.Instrs {
			st, ok := ins.(*ssa.Store)
			if !ok {
				continue
			}
			a, ok := st.Addr.(*ssa.Alloc)
			if !ok || a.Comment != name {
				continue
			}
			sv := st.Val
			for {
				// a function literal assigned to a variable of a named func type (events.Listener) is converted first
				if ct, ok := sv.(*ssa.ChangeType); ok {
					sv = ct.X
					continue
				}
				break
			}
			switch v := sv.(type) {
			case *ssa.MakeClosure:
				found = v.Fn.(*ssa.Function)
				count++
			case *ssa.Function:
				if v.Parent() == parent {
					found = v
					count++
				}
			}
		}
	}
	if count == 1 {
		return found
	}
	return nil
}

// findImmutableGlobals marks package-level variables of the module that are only assigned in init.
func (w *World) findImmutableGlobals() {
	stored := map[*ssa.Global]bool{}
	for _, f := range w.allFuncs {
		if f.Name() == "init" && f.Parent() == nil {
			continue
		}
		for _, b := range f.Blocks {
			for _, ins := range b.Instrs {
				if st, ok := ins.(*ssa.Store); ok {
					if g := rootGlobal(st.Addr); g != nil {
						stored[g] = true
					}
				}
				// address taken and passed around?
				if c, ok := ins.(ssa.CallInstruction); ok {
					for _, a := range c.Common().Args {
						if g, ok := a.(*ssa.Global); ok {
							stored[g] = true
						}
					}
				}
			}
		}
	}
	for _, pk := range w.Prog.Pkgs {
		sp := w.Prog.SSAPkg[pk.PkgPath]
		if sp == nil {
			continue
		}
		for _, m := range sp.Members {
			if g, ok := m.(*ssa.Global); ok && !stored[g] {
				w.immutable[g] = true
			}
		}
	}
}

// findMutableFields records which fields of module struct types are assigned outside construction.
// A store initialises (rather than mutates) when its target is an object allocated in the same function, or when the
// function is a constructor (Make*, New*, Construct, Prototype - the wiring step of the New* functions). Fields never mutated keep their value across calls that
// "may modify anything" (assumption: Construct runs once per object; external code cannot assign module fields
// except exported ones, which are treated as mutable when exported and of a type used outside the module).
func (w *World) findMutableFields() {
	w.mutableFields = map[string]bool{}
	isCtor := func(f *ssa.Function) bool {
		for f.Parent() != nil {
			f = f.Parent()
		}
		n := f.Name()
		return strings.HasPrefix(n, "Make") || strings.HasPrefix(n, "New") || n == "Construct" || n == "Prototype" || n == "init"
	}
	for _, f := range w.allFuncs {
		ctor := isCtor(f)
		for _, b := range f.Blocks {
			for _, ins := range b.Instrs {
				var addr ssa.Value
				switch x := ins.(type) {
				case *ssa.Store:
					addr = x.Addr
				case ssa.CallInstruction:
					// atomics and mutexes write their receiver
					c := x.Common()
					if fn := c.StaticCallee(); fn != nil && len(c.Args) > 0 && isIntrinsicKey(FuncKey(fn)) {
						m := fn.Name()
						if m != "Load" && m != "RLock" && m != "RUnlock" {
							addr = c.Args[0]
						}
					}
				}
				if addr == nil {
					continue
				}
				var path []string
				v := addr
				for {
					fa, ok := v.(*ssa.FieldAddr)
					if !ok {
						break
					}
					st := types.Unalias(fa.X.Type().Underlying().(*types.Pointer).Elem()).Underlying().(*types.Struct)
					path = append([]string{st.Field(fa.Field).Name()}, path...)
					v = fa.X
				}
				if len(path) == 0 {
					continue
				}
				if _, fresh := v.(*ssa.Alloc); fresh || ctor {
					continue
				}
				// the object was allocated in this function and is held in a variable assigned exactly once (captured by
				// a closure, so SSA keeps it in a cell): the store still initialises
				if ld, ok := v.(*ssa.UnOp); ok {
					if cell, ok := ld.X.(*ssa.Alloc); ok {
						if sts := storesTo(cell); len(sts) == 1 {
							if obj, ok := sts[0].(*ssa.Alloc); ok && obj.Parent() == f {
								continue
							}
						}
					}
				}
				pt, ok := types.Unalias(v.Type()).Underlying().(*types.Pointer)
				if !ok {
					continue
				}
				key := objKeyPrefix(pt.Elem())
				for _, p := range path {
					key += "." + p
					w.mutableFields[key] = true
				}
			}
		}
	}
}

// fieldImmutable reports whether a heap key designates a module struct field that is never assigned after construction.
func (w *World) fieldImmutable(key string) bool {
	if strings.HasPrefix(key, "mem<") || strings.HasPrefix(key, "cell<") || strings.HasPrefix(key, "ghost:") || strings.HasPrefix(key, "map<") || strings.HasPrefix(key, "closure<") {
		return false
	}
	if !w.Prog.InModule(keyPkg(key)) {
		return false
	}
	// key is Type.f1.f2...leaf ; every prefix beyond the type must be immutable
	tk := key
	// find the type part: the longest prefix that is not followed by a registered mutable field
	for m := range w.mutableFields {
		if key == m || strings.HasPrefix(key, m+".") {
			return false
		}
	}
	if strings.HasSuffix(key, ".$held") {
		return false
	}
	_ = tk
	return true
}

// keyPkg extracts the package path of the struct type a heap key starts with.
func keyPkg(key string) string {
	// keys look like path/pkg.Type[.field...] possibly with type arguments
	i := strings.Index(key, "[")
	head := key
	if i >= 0 {
		head = key[:i]
	}
	slash := strings.LastIndex(head, "/")
	dot := strings.Index(head[slash+1:], ".")
	if dot < 0 {
		return ""
	}
	return head[:slash+1+dot]
}

func rootGlobal(v ssa.Value) *ssa.Global {
	for {
		switch x := v.(type) {
		case *ssa.Global:
			return x
		case *ssa.FieldAddr:
			v = x.X
		case *ssa.IndexAddr:
			v = x.X
		default:
			return nil
		}
	}
}

// Engine holds the SMT context of one unit.
type Engine struct {
	w            *World
	ctx          *smt.Ctx
	leafCache    map[string][]Leaf
	strLits      map[string]smt.Term
	strLitOrder  []string
	typeTags     map[string]int
	typeTagTypes []types.Type
	heapKeys     map[string]heapKey
	x            *exec
	typeInvUsed  map[string]bool
	inTypeInv    bool
	genCounter   int
	obls         []*Obligation
	unitName     string
	globalsDone  map[*ssa.Global]bool
	nonNilGlobals []smt.Term
	paths        int
	maxPaths     int
	epoch        int
	notes        []string // havoc-by-default calls etc.
	noteSeen     map[string]bool
	trustedUsed  map[string]bool
	contractsUsed map[string]bool
	curUnit      *Unit
	pureDepth    int
	specDepth    int
	trivial      int
	fnConsts     map[string]bool
	fnConstList  []smt.Term
	implIfaces   map[string]bool
	implList     []types.Type
	fnIDs        map[string]int
	cells        map[*ssa.Alloc]Value
	cellList     []smt.Term
	markCounter  int
	qcount       int
	mute         int
	pureMemo     map[string]Value
	sawCallSite  map[*spec.CallSite]bool
	nonNilDone   map[string]bool
	dynDone      map[string]bool
	zeroArrDone  map[string]bool
	pathModel    []ModelTerm
	started      time.Time
	budget       time.Duration
}

func newEngine(w *World, unit string) *Engine {
	return &Engine{
		w: w, ctx: smt.NewCtx(), leafCache: map[string][]Leaf{}, strLits: map[string]smt.Term{},
		typeTags: map[string]int{}, heapKeys: map[string]heapKey{}, unitName: unit,
		globalsDone: map[*ssa.Global]bool{}, maxPaths: 4096, noteSeen: map[string]bool{}, trustedUsed: map[string]bool{}, contractsUsed: map[string]bool{},
		fnConsts: map[string]bool{}, implIfaces: map[string]bool{}, fnIDs: map[string]int{}, cells: map[*ssa.Alloc]Value{},
		pureMemo: map[string]Value{}, sawCallSite: map[*spec.CallSite]bool{}, nonNilDone: map[string]bool{}, dynDone: map[string]bool{}, zeroArrDone: map[string]bool{}, started: time.Now(), budget: 90 * time.Second,
	}
}

func (e *Engine) note(f string, a ...any) {
	s := fmt.Sprintf(f, a...)
	if !e.noteSeen[s] {
		e.noteSeen[s] = true
		e.notes = append(e.notes, s)
	}
}

func (e *Engine) immutableGlobal(g *ssa.Global) bool {
	if g.Pkg == nil {
		return true
	}
	if !e.w.Prog.InModule(g.Pkg.Pkg.Path()) {
		// external package-level variables (io.EOF, io.Discard, http.DefaultServeMux ...) are treated as constants
		return true
	}
	return e.w.immutable[g]
}

// globalFacts records what is known about immutable globals: sentinel errors
// created by errors.New / &T{} in init are non-nil and pairwise distinct.
func (e *Engine) globalFacts(g *ssa.Global, v Value) {
	if e.globalsDone[g] {
		return
	}
	e.globalsDone[g] = true
	t := g.Type().(*types.Pointer).Elem()
	if !types.IsInterface(t) && !isPointerShaped(t) {
		// constants of basic type initialised with a constant expression
		if c := e.w.constInit(g); c != nil {
			cv := e.constValue(c)
			for i := range v.L {
				e.ctx.Axiom(smt.Eq(v.L[i], cv.L[i]))
			}
		}
		return
	}
	if e.w.allocInit(g) {
		e.nonNilFact(g.Pkg.Pkg.Path()+"."+g.Name(), v)
		if dt := e.w.initDynType(g); dt != nil && v.L[0].Sort == smt.Iface {
			e.ctx.Axiom(smt.Eq(e.dyn(v.L[0]), e.typeTag(dt)))
		}
	}
}

// errorStringType is *errors.errorString, the dynamic type of errors.New results.
func (w *World) errorStringType() types.Type {
	if p := w.TypesPkg("errors"); p != nil {
		if tn, ok := p.Scope().Lookup("errorString").(*types.TypeName); ok {
			return types.NewPointer(tn.Type())
		}
	}
	return nil
}

// initDynType returns the dynamic type init stores into an interface-typed global.
func (w *World) initDynType(g *ssa.Global) types.Type {
	initf := g.Pkg.Func("init")
	if initf == nil {
		return nil
	}
	for _, b := range initf.Blocks {
		for _, ins := range b.Instrs {
			st, ok := ins.(*ssa.Store)
			if !ok || st.Addr != ssa.Value(g) {
				continue
			}
			switch x := st.Val.(type) {
			case *ssa.MakeInterface:
				return x.X.Type()
			case *ssa.Call:
				if f := x.Call.StaticCallee(); f != nil && f.Pkg != nil && f.Pkg.Pkg.Path() == "errors" && f.Name() == "New" {
					return w.errorStringType()
				}
			}
		}
	}
	return nil
}

// nonNilFact records that a sentinel value is non-nil and distinct from the other sentinels.
func (e *Engine) nonNilFact(name string, v Value) {
	if e.nonNilDone[name] {
		return
	}
	e.nonNilDone[name] = true
	term := v.L[0]
	if term.Sort == smt.Iface {
		e.ctx.Axiom(smt.Not(smt.Eq(term, e.nilIface())))
	} else if term.Sort == smt.Ref {
		e.ctx.Axiom(smt.Not(smt.Eq(term, e.null())))
	} else {
		return
	}
	for _, o := range e.nonNilGlobals {
		if o.Sort == term.Sort {
			e.ctx.Axiom(smt.Not(smt.Eq(term, o)))
		}
	}
	e.nonNilGlobals = append(e.nonNilGlobals, term)
}

// knownNonNilExternalName lists external sentinel values.
func knownNonNilExternalName(name string) bool {
	switch name {
	case "io.EOF", "io.ErrUnexpectedEOF", "io.Discard", "io.ErrShortWrite", "io.ErrClosedPipe", "net/http.ErrServerClosed", "net/http.ErrAbortHandler",
		"bufio.ErrBufferFull", "bufio.ErrNegativeCount", "net/http.ErrBodyNotAllowed":
		return true
	}
	return false
}

// allocInit reports whether init assigns g a freshly allocated value (errors.New, &T{...}, New...()).
func (w *World) allocInit(g *ssa.Global) bool {
	initf := g.Pkg.Func("init")
	if initf == nil {
		return false
	}
	for _, b := range initf.Blocks {
		for _, ins := range b.Instrs {
			st, ok := ins.(*ssa.Store)
			if !ok || st.Addr != ssa.Value(g) {
				continue
			}
			val := st.Val
			if mi, ok := val.(*ssa.MakeInterface); ok {
				val = mi.X
			}
			switch x := val.(type) {
			case *ssa.Alloc:
				return true
			case *ssa.Call:
				if f := x.Call.StaticCallee(); f != nil && f.Pkg != nil && f.Pkg.Pkg.Path() == "errors" && f.Name() == "New" {
					return true
				}
				// regexp.MustCompile returns a fresh non-nil *Regexp or panics (at init time)
				if f := x.Call.StaticCallee(); f != nil && f.Pkg != nil && f.Pkg.Pkg.Path() == "regexp" && f.Name() == "MustCompile" {
					return true
				}
			}
		}
	}
	return false
}

func (w *World) constInit(g *ssa.Global) *ssa.Const {
	initf := g.Pkg.Func("init")
	if initf == nil {
		return nil
	}
	for _, b := range initf.Blocks {
		for _, ins := range b.Instrs {
			if st, ok := ins.(*ssa.Store); ok && st.Addr == ssa.Value(g) {
				if c, ok := st.Val.(*ssa.Const); ok {
					return c
				}
			}
		}
	}
	return nil
}

// declOf finds the syntax of a function (for loop ordinals).
func (w *World) declOf(f *ssa.Function) ast.Node { return f.Syntax() }

func (w *World) fset() *token.FileSet { return w.Prog.Fset }

func exists(p string) bool { _, err := os.Stat(p); return err == nil }


// checkPrivate verifies a "private T1, T2 in file.go" declaration: no function declared outside that file takes the
// address of a field of one of the types (reads and writes both go through a field address in SSA), and no composite value
// of the types is built elsewhere. A violation is reported as a contract problem of the run.
func (w *World) checkPrivate(pr *spec.Private) {
	want := map[string]bool{}
	for _, t := range pr.Types {
		want[pr.Pkg+"."+t] = true
	}
	named := func(t types.Type) string {
		t = types.Unalias(t)
		if p, ok := t.Underlying().(*types.Pointer); ok {
			t = types.Unalias(p.Elem())
		}
		if n, ok := t.(*types.Named); ok && n.Obj().Pkg() != nil {
			return n.Obj().Pkg().Path() + "." + n.Obj().Name()
		}
		return ""
	}
	for _, fn := range w.allFuncs {
		if fn.Blocks == nil {
			continue
		}
		pos := w.Prog.Fset.Position(fn.Pos())
		if strings.HasSuffix(pos.Filename, "/"+pr.File) || !w.Prog.InModule(pkgPathOf(fn)) {
			continue
		}
		for _, b := range fn.Blocks {
			for _, ins := range b.Instrs {
				var t types.Type
				switch x := ins.(type) {
				case *ssa.FieldAddr:
					t = x.X.Type()
				case *ssa.Field:
					t = x.X.Type()
				}
				if t != nil && want[named(t)] {
					w.Problems = append(w.Problems, fmt.Sprintf("%s: %s touches a field of %s, which is declared private to %s (%s)", pr.Pos, shortKey(FuncKey(fn)), named(t), pr.File, w.Prog.Fset.Position(ins.Pos())))
				}
			}
		}
	}
}
