package vc

import (
	"sort"
	"fmt"
	"os"
	"runtime/debug"
	"go/constant"
	"go/token"
	"go/types"
	"math/big"
	"strings"

	"golang.org/x/tools/go/packages"
	"golang.org/x/tools/go/ssa"
	"govc/internal/smt"
	"govc/internal/spec"
)

// Env is an evaluation environment for specification expressions.
type Env struct {
	x        *exec
	st       *State
	old      *State
	names    map[string]Value
	oldNames map[string]Value
	macros   map[string]spec.Expr
	pkgPath  string // package whose scope resolves identifiers
	imports  map[string]string
	frame    *Frame // when set, identifiers may name locals of this frame
	sitePos  token.Pos
	loop     *loop
	bound    map[string]Value
	depth    int
	inOld    bool
	inBody   bool // inside the loop body (after the header advanced the hidden range index)
	atCallSite bool // evaluating a callee's ensures for assumption: trace functions are not available
	fn       *ssa.Function // the function whose contract is being evaluated (nil for external contracts)
	reps     map[string]*spec.Represents // ghost name -> coupling expression (refinement of an interface model contract)
	foreignAlloc bool // evaluating a monitor invariant at acquisition: allocated(x) means "exists and is not an allocation of this unit"
}

type traceAtCallSite struct{}

// SpecError is panicked for ill-formed contract expressions.
type SpecError struct{ Msg string }

func (s SpecError) Error() string { return "contract error: " + s.Msg }

func specErr(f string, a ...any) {
	msg := fmt.Sprintf(f, a...)
	if os.Getenv("GOVC_TRACE") != "" {
		msg += "\n" + string(debug.Stack())
	}
	panic(SpecError{msg})
}

func (x *exec) newEnv(st *State, fs *spec.FuncSpec) *Env {
	env := &Env{x: x, st: st, names: map[string]Value{}, macros: map[string]spec.Expr{}}
	if fs != nil {
		env.pkgPath = fs.Pkg
		for _, l := range fs.Lets {
			env.macros[l.Name] = l.Expr
		}
		env.imports = x.e.w.importsOf(fs)
		env.fn = x.e.w.funcByKey[fs.Key]
	}
	return env
}

func (w *World) importsOf(fs *spec.FuncSpec) map[string]string {
	for _, f := range w.Files {
		for _, g := range f.Funcs {
			if g == fs {
				return f.Imports
			}
		}
	}
	return nil
}

func (env *Env) child() *Env {
	c := *env
	c.depth++
	if c.depth > 60 {
		specErr("specification recursion too deep")
	}
	return &c
}

var tUntypedInt = types.Typ[types.UntypedInt]
var tBool = types.Typ[types.Bool]
var tInt = types.Typ[types.Int]

func (env *Env) evalBool(e spec.Expr) smt.Term {
	v := env.eval(e)
	if len(v.L) != 1 || v.L[0].Sort != smt.Bool {
		specErr("boolean expected: %s", exprString(e))
	}
	return v.L[0]
}

// evalBoolLazy evaluates a boolean operand; a reference to a call that did not happen on this path
// (arg/ret of a missing event) makes that operand false instead of the whole clause.
func (env *Env) evalBoolLazy(e spec.Expr) (t smt.Term) {
	defer func() {
		if r := recover(); r != nil {
			if _, ok := r.(noSuchEvent); ok {
				t = smt.False
				return
			}
			panic(r)
		}
	}()
	return env.evalBool(e)
}

func (env *Env) evalInt64(e spec.Expr) smt.Term {
	v := env.eval(e)
	w, signed, ok := intInfo(v.T)
	if !ok {
		specErr("integer expected: %s", exprString(e))
	}
	_ = w
	return smt.Resize(v.one(), 64, signed)
}

// evalGoal evaluates a clause that is to be proved: top-level universal quantifiers are skolemised.
func (env *Env) evalGoal(e spec.Expr) smt.Term {
	switch e := e.(type) {
	case *spec.Quant:
		if e.Forall {
			t := env.resolveType(e.Type)
			c := env.child()
			c.bound = copyMap(env.bound)
			v := env.x.e.fresh("sk_"+e.Var, t)
			c.bound[e.Var] = v
			return c.evalGoal(e.Body)
		}
	case *spec.Binary:
		switch e.Op {
		case "==>":
			return smt.Implies(env.evalBool(e.X), env.evalGoalLazy(e.Y))
		case "&&":
			return smt.And(env.evalGoalLazy(e.X), env.evalGoalLazy(e.Y))
		}
	case *spec.Ident:
		if m, ok := env.macros[e.Name]; ok {
			return env.evalGoal(m)
		}
	}
	return env.evalBool(e)
}

func (env *Env) evalGoalLazy(e spec.Expr) (t smt.Term) {
	defer func() {
		if r := recover(); r != nil {
			if _, ok := r.(noSuchEvent); ok {
				t = smt.False
				return
			}
			panic(r)
		}
	}()
	return env.evalGoal(e)
}

func copyMap(m map[string]Value) map[string]Value {
	n := make(map[string]Value, len(m)+1)
	for k, v := range m {
		n[k] = v
	}
	return n
}

func (env *Env) eval(e spec.Expr) Value {
	en := env.x.e
	switch e := e.(type) {
	case *spec.Lit:
		switch e.Kind {
		case "int":
			bi, ok := new(big.Int).SetString(e.Val, 0)
			if !ok {
				specErr("bad integer literal %s", e.Val)
			}
			return scalar(tUntypedInt, smt.BigLit(bi, 64))
		case "string":
			return scalar(types.Typ[types.String], en.strLit(e.Val))
		}
	case *spec.Ident:
		return env.ident(e.Name)
	case *spec.Unary:
		v := env.eval(e.X)
		switch e.Op {
		case "!":
			return scalar(tBool, smt.Not(v.one()))
		case "-":
			return scalar(v.T, smt.BVNeg(v.one()))
		case "^":
			return scalar(v.T, smt.BVNot(v.one()))
		case "+":
			return v
		}
	case *spec.Binary:
		return env.binary(e)
	case *spec.Cond:
		c := env.evalBool(e.C)
		a, b := env.eval(e.A), env.eval(e.B)
		a, b = env.unify(a, b)
		la, lb := en.leavesOf(a), en.leavesOf(b)
		if len(la) != len(lb) {
			specErr("branches of ?: differ in type: %s", exprString(e))
		}
		out := Value{T: a.T, L: make([]smt.Term, len(la))}
		for i := range la {
			out.L[i] = smt.Ite(c, la[i], lb[i])
		}
		return out
	case *spec.Sel:
		return env.selector(e)
	case *spec.Index:
		return env.index(e)
	case *spec.SliceEx:
		return env.sliceExpr(e)
	case *spec.Call:
		return env.call(e)
	case *spec.Quant:
		return env.quant(e)
	case *spec.TypeExpr:
		specErr("type %s used as a value", e)
	}
	specErr("cannot evaluate %s", exprString(e))
	return Value{}
}

// unify coerces untyped constants and nil to the type of the other operand.
func (env *Env) unify(a, b Value) (Value, Value) {
	en := env.x.e
	isUntypedInt := func(v Value) bool { return v.T == tUntypedInt }
	isNil := func(v Value) bool { return v.T == types.Typ[types.UntypedNil] }
	if isUntypedInt(a) && !isUntypedInt(b) {
		if w, _, ok := intInfo(b.T); ok {
			a = scalar(b.T, smt.Resize(a.one(), w, true))
		}
	} else if isUntypedInt(b) && !isUntypedInt(a) {
		if w, _, ok := intInfo(a.T); ok {
			b = scalar(a.T, smt.Resize(b.one(), w, true))
		}
	}
	if isNil(a) && !isNil(b) {
		a = en.zero(b.T)
	} else if isNil(b) && !isNil(a) {
		b = en.zero(a.T)
	}
	// interface vs concrete: box the concrete side
	if !isNil(a) && !isNil(b) && a.T != nil && b.T != nil {
		if types.IsInterface(a.T) && !types.IsInterface(b.T) && b.T != tUntypedInt {
			b = scalar(a.T, en.box(b))
		} else if types.IsInterface(b.T) && !types.IsInterface(a.T) && a.T != tUntypedInt {
			a = scalar(b.T, en.box(a))
		}
	}
	return a, b
}

var binTok = map[string]token.Token{
	"+": token.ADD, "-": token.SUB, "*": token.MUL, "/": token.QUO, "%": token.REM,
	"&": token.AND, "|": token.OR, "^": token.XOR, "<<": token.SHL, ">>": token.SHR, "&^": token.AND_NOT,
	"==": token.EQL, "!=": token.NEQ, "<": token.LSS, "<=": token.LEQ, ">": token.GTR, ">=": token.GEQ,
}

func (env *Env) binary(e *spec.Binary) Value {
	switch e.Op {
	case "&&":
		return scalar(tBool, smt.And(env.evalBoolLazy(e.X), env.evalBoolLazy(e.Y)))
	case "||":
		return scalar(tBool, smt.Or(env.evalBoolLazy(e.X), env.evalBoolLazy(e.Y)))
	case "==>":
		return scalar(tBool, smt.Implies(env.evalBool(e.X), env.evalBoolLazy(e.Y)))
	case "<==>":
		return scalar(tBool, smt.Eq(env.evalBool(e.X), env.evalBool(e.Y)))
	}
	a, b := env.eval(e.X), env.eval(e.Y)
	tok, ok := binTok[e.Op]
	if !ok {
		specErr("operator %s", e.Op)
	}
	if tok != token.SHL && tok != token.SHR {
		a, b = env.unify(a, b)
	} else if b.T == tUntypedInt {
		b = scalar(types.Typ[types.Uint64], b.one())
	}
	rt := a.T
	switch tok {
	case token.EQL, token.NEQ, token.LSS, token.LEQ, token.GTR, token.GEQ:
		rt = tBool
		if a.T == types.Typ[types.UntypedNil] && b.T == types.Typ[types.UntypedNil] {
			return scalar(tBool, smt.BoolLit(tok == token.EQL))
		}
	}
	if _, isSl := types.Unalias(a.T).Underlying().(*types.Slice); isSl && (tok == token.EQL || tok == token.NEQ) && !isNilExpr(e.X) && !isNilExpr(e.Y) && len(a.L) == 4 && len(b.L) == 4 {
		// specification-level slice equality: same backing array, offset, length and capacity
		eq := smt.And(smt.Eq(a.L[0], b.L[0]), smt.Eq(a.L[1], b.L[1]), smt.Eq(a.L[2], b.L[2]), smt.Eq(a.L[3], b.L[3]))
		if tok == token.NEQ {
			eq = smt.Not(eq)
		}
		return scalar(tBool, eq)
	}
	if (tok == token.EQL || tok == token.NEQ) && len(a.L) == 1 && len(b.L) == 1 && a.L[0].Sort == smt.Bool {
		eq := smt.Eq(a.L[0], b.L[0])
		if tok == token.NEQ {
			eq = smt.Not(eq)
		}
		return scalar(tBool, eq)
	}
	return env.x.binop(env.st, nil, tok, a, b, rt)
}

func isNilExpr(e spec.Expr) bool {
	id, ok := e.(*spec.Ident)
	return ok && id.Name == "nil"
}

// ident resolves a bare identifier.
func (env *Env) ident(name string) Value {
	en := env.x.e
	if v, ok := env.bound[name]; ok {
		return v
	}
	switch name {
	case "nil":
		return Value{T: types.Typ[types.UntypedNil], L: []smt.Term{en.null()}}
	case "true":
		return scalar(tBool, smt.True)
	case "false":
		return scalar(tBool, smt.False)
	}
	if m, ok := env.macros[name]; ok {
		c := env.child()
		c.macros = map[string]spec.Expr{}
		for k, v := range env.macros {
			if k != name {
				c.macros[k] = v
			}
		}
		return c.eval(m)
	}
	if name == "$i" && env.loop != nil && env.loop.rangeIdx != nil {
		idx := env.st.locals[env.loop.rangeIdx]
		if env.inBody {
			// in the body the hidden index already designates the current element: that many iterations are complete
			return scalar(tInt, idx.one())
		}
		return scalar(tInt, smt.BVBin("bvadd", idx.one(), smt.BVLit(1, 64)))
	}
	if env.frame != nil {
		if v, ok := env.local(name); ok {
			return v
		}
	}
	if v, ok := env.names[name]; ok {
		return v
	}
	if v, ok := env.st.ghostLocals[name]; ok {
		return v
	}
	// a variable of an enclosing function that this closure does not capture itself (but closures it calls do): its cell
	// is the same symbolic cell that is passed as binding when those closures are called
	if env.fn != nil {
		for p := env.fn.Parent(); p != nil; p = p.Parent() {
			for _, b := range p.Blocks {
				for _, ins := range b.Instrs {
					if a, ok := ins.(*ssa.Alloc); ok && a.Heap && a.Comment == name {
						cell := en.unknownCell(a)
						cell.T = a.Type()
						return env.x.loadVia(env.st, env.x.ptrOf(cell))
					}
				}
			}
		}
	}
	// package scope
	if pk := en.w.Prog.All[env.pkgPath]; pk != nil && pk.Types != nil {
		if obj := pk.Types.Scope().Lookup(name); obj != nil {
			return env.object(obj)
		}
	}
	if obj := types.Universe.Lookup(name); obj != nil {
		if c, ok := obj.(*types.Const); ok {
			return env.constObj(c)
		}
	}
	specErr("undefined: %s", name)
	return Value{}
}

func (env *Env) object(obj types.Object) Value {
	en := env.x.e
	switch o := obj.(type) {
	case *types.Const:
		return env.constObj(o)
	case *types.Var:
		if sp := en.w.Prog.SSA.Package(o.Pkg()); sp != nil {
			if g := sp.Var(o.Name()); g != nil {
				return en.globalValue(env.st, g)
			}
		}
		if en.w.Prog.InModule(o.Pkg().Path()) {
			specErr("%s is not a package-level variable", o.Name())
		}
		return en.globalByName(env.st, o.Pkg().Path(), o.Name(), o.Type(), true)
	case *types.Func:
		sp := en.w.Prog.SSA.Package(o.Pkg())
		if sp != nil {
			if f := sp.Func(o.Name()); f != nil {
				return en.funcValue(f)
			}
		}
	}
	specErr("%s cannot be used in a specification", obj.Name())
	return Value{}
}

func (env *Env) constObj(c *types.Const) Value {
	en := env.x.e
	t := c.Type()
	b, ok := t.Underlying().(*types.Basic)
	if !ok {
		specErr("constant %s", c.Name())
	}
	switch {
	case b.Info()&types.IsInteger != 0:
		w, _, _ := basicWidth(b)
		if b.Kind() == types.UntypedInt || b.Kind() == types.UntypedRune {
			return en.intConst(tUntypedInt, c.Val(), 64)
		}
		return en.intConst(t, c.Val(), w)
	case b.Info()&types.IsString != 0:
		return scalar(t, en.strLit(constant.StringVal(c.Val())))
	case b.Info()&types.IsBoolean != 0:
		return scalar(tBool, smt.BoolLit(constant.BoolVal(c.Val())))
	}
	specErr("constant %s of type %v", c.Name(), t)
	return Value{}
}

// local resolves a name to the current value of a local variable / parameter / captured variable of the frame.
func (env *Env) local(name string) (Value, bool) {
	fn := env.frame.fn
	en := env.x.e
	pos := env.sitePos
	if env.loop != nil && !pos.IsValid() {
		pos = env.loop.pos
	}
	var objPos token.Pos
	if pk := env.pkgOfFn(fn); pk != nil && pos.IsValid() {
		if sc := pk.Types.Scope().Innermost(pos); sc != nil {
			if _, obj := sc.LookupParent(name, pos); obj != nil {
				if _, isVar := obj.(*types.Var); isVar && obj.Parent() != pk.Types.Scope() {
					objPos = obj.Pos()
				} else {
					return Value{}, false
				}
			}
		}
	}
	match := func(p token.Pos, n string) bool {
		if objPos.IsValid() {
			return p == objPos
		}
		return n == name
	}
	for _, fv := range fn.FreeVars {
		if match(fv.Pos(), fv.Name()) && fv.Name() == name {
			if cell, ok := env.st.regs[fv]; ok {
				return env.x.loadVia(env.st, env.x.ptrOf(cell)), true
			}
		}
	}
	var best *ssa.Alloc
	for _, b := range fn.Blocks {
		for _, ins := range b.Instrs {
			a, ok := ins.(*ssa.Alloc)
			if !ok || a.Comment != name || !match(a.Pos(), a.Comment) {
				continue
			}
			if _, live := env.st.regs[a]; !live {
				continue
			}
			if best == nil || a.Pos() > best.Pos() && (!pos.IsValid() || a.Pos() <= pos) {
				best = a
			}
		}
	}
	if best != nil {
		return env.x.loadVia(env.st, env.x.ptrOf(env.st.regs[best])), true
	}
	_ = en
	return Value{}, false
}

func (env *Env) pkgOfFn(fn *ssa.Function) *packages.Package { return env.x.e.w.Prog.All[pkgPathOf(fn)] }

// selector evaluates x.name.
func (env *Env) selector(e *spec.Sel) Value {
	en := env.x.e
	// package-qualified identifier?
	if id, ok := e.X.(*spec.Ident); ok {
		if _, shadow := env.names[id.Name]; !shadow {
			if _, b := env.bound[id.Name]; !b {
				if _, m := env.macros[id.Name]; !m {
					if pk := env.importedPkg(id.Name); pk != nil {
						if env.frame == nil || !env.isLocalName(id.Name) {
							obj := pk.Scope().Lookup(e.Name)
							if obj == nil {
								specErr("%s.%s undefined", id.Name, e.Name)
							}
							return env.object(obj)
						}
					}
				}
			}
		}
	}
	v := env.eval(e.X)
	if strings.HasPrefix(e.Name, "$") {
		return env.ghostField(v, e.Name)
	}
	return env.fieldOf(v, e.Name, exprString(e))
	_ = en
	return Value{}
}

func (env *Env) isLocalName(name string) bool {
	_, ok := env.local(name)
	return ok
}

func (env *Env) importedPkg(name string) *types.Package {
	en := env.x.e
	if full, ok := env.imports[name]; ok {
		if p := en.w.TypesPkg(full); p != nil {
			return p
		}
	}
	if pk := en.w.Prog.All[env.pkgPath]; pk != nil && pk.Types != nil {
		// the file may use an import alias: search syntax first
		for _, f := range pk.Syntax {
			for _, is := range f.Imports {
				if is.Name != nil && is.Name.Name == name {
					if p := en.w.TypesPkg(strings.Trim(is.Path.Value, "\"")); p != nil {
						return p
					}
				}
			}
		}
		for _, imp := range pk.Types.Imports() {
			if imp.Name() == name || imp.Path() == name {
				return imp
			}
		}
	}
	if p := en.w.TypesPkg(name); p != nil {
		return p
	}
	return nil
}

// fieldOf loads field name of a struct value or of the struct a pointer designates (with promotion).
func (env *Env) fieldOf(v Value, name, ctx string) Value {
	en := env.x.e
	t := v.T
	if t == nil {
		specErr("%s: value has no type", ctx)
	}
	obj, index, _ := types.LookupFieldOrMethod(t, true, nil, name)
	if obj == nil {
		// unexported field of another package: need the package
		if n := namedOf(t); n != nil && n.Obj().Pkg() != nil {
			obj, index, _ = types.LookupFieldOrMethod(t, true, n.Obj().Pkg(), name)
		}
	}
	fv, ok := obj.(*types.Var)
	if !ok || !fv.IsField() {
		specErr("%s: no field %s in %v", ctx, name, t)
	}
	cur := v
	for _, i := range index {
		if pt, ok := types.Unalias(cur.T).Underlying().(*types.Pointer); ok {
			p := env.x.ptrOf(cur)
			np := *p
			np.Path = append(append([]int(nil), p.Path...), i)
			_ = pt
			cur = env.x.loadVia(env.st, &np)
		} else {
			cur = en.subValue(cur, cur.T, []int{i})
		}
	}
	return cur
}

func namedOf(t types.Type) *types.Named {
	t = types.Unalias(t)
	if p, ok := t.Underlying().(*types.Pointer); ok {
		t = types.Unalias(p.Elem())
	}
	n, _ := t.(*types.Named)
	return n
}

// ghostKey returns heap key, index term and element sort of a ghost field access.
func (env *Env) ghostLoc(v Value, name string) (string, smt.Term, smt.Sort, types.Type) {
	en := env.x.e
	g := en.w.Ghosts[name]
	if g == nil {
		specErr("undeclared ghost field %s", name)
	}
	gt := env.resolveTypeIn(g.Type, g.Pkg)
	ls := en.leaves(gt)
	if len(ls) != 1 {
		specErr("ghost field %s must have a scalar type", name)
	}
	var idx smt.Term
	if types.IsInterface(v.T) {
		idx = v.one()
	} else if v.P != nil {
		if v.P.Kind != PtrHeap || len(v.P.Path) != 0 {
			specErr("ghost field %s of a non-heap object", name)
		}
		idx = v.P.Base
	} else {
		idx = v.one()
	}
	return "ghost:" + g.Recv + "." + name, idx, ls[0].Sort, gt
}

func (env *Env) ghostField(v Value, name string) Value {
	en := env.x.e
	// refinement: when the implementation of an interface is verified against the interface's model contract, a ghost
	// field of the receiver is read as the coupling expression declared with "represents"
	if env.reps != nil {
		if rp := env.reps[name]; rp != nil {
			if pt, ok := types.Unalias(v.T).Underlying().(*types.Pointer); ok && !types.IsInterface(v.T) {
				_ = pt
				c := env.x.newEnv(env.st, nil)
				c.pkgPath = rp.Pkg
				c.imports = env.imports
				c.names = map[string]Value{"this": v}
				gt := env.resolveTypeIn(en.w.Ghosts[name].Type, en.w.Ghosts[name].Pkg)
				r := c.eval(rp.Expr)
				r.T = gt
				return r
			}
		}
	}
	key, idx, sort, gt := env.ghostLoc(v, name)
	arr := en.heapArr(env.st, key, idx.Sort, sort)
	return scalar(gt, smt.Select(arr, idx))
}

func (env *Env) index(e *spec.Index) Value {
	en := env.x.e
	v := env.eval(e.X)
	i := env.evalInt64(e.I)
	switch t := types.Unalias(v.T).Underlying().(type) {
	case *types.Slice:
		abs := smt.BVBin("bvadd", v.L[slOff], i)
		// index of the form (j - off) into a slice starting at off: the absolute index is j
		if pre := "(bvsub "; strings.HasPrefix(i.S, pre) && strings.HasSuffix(i.S, " "+v.L[slOff].S+")") {
			j := i.S[len(pre) : len(i.S)-len(v.L[slOff].S)-2]
			if !strings.ContainsAny(j, " ()") {
				abs = smt.Sym(j, bv64)
			}
		}
		p := &Ptr{Kind: PtrElem, Base: v.L[slArr], Idx: abs, Root: t.Elem()}
		return en.loadRaw(env.st, p)
	case *types.Basic:
		return scalar(types.Typ[types.Uint8], en.strAt(v.one(), i))
	case *types.Array:
		return scalar(t.Elem(), smt.Select(v.one(), i))
	}
	specErr("cannot index %s", exprString(e.X))
	return Value{}
}

// loadRaw loads without naming or adding assumptions (safe under quantifiers).
func (e *Engine) loadRaw(st *State, p *Ptr) Value {
	prefix, t := e.followPath(p.Root, p.Path)
	var ls []smt.Term
	switch p.Kind {
	case PtrElem:
		for _, l := range e.leaves(t) {
			arr := e.heapArr(st, memKeyPrefix(p.Root)+prefix+l.Path, smt.Ref, smt.ArrayOf(bv64, l.Sort))
			ls = append(ls, smt.Select(smt.Select(arr, p.Base), p.Idx))
		}
	case PtrHeap:
		for _, l := range e.leaves(t) {
			arr := e.heapArr(st, objKeyPrefix(p.Root)+prefix+l.Path, smt.Ref, l.Sort)
			ls = append(ls, smt.Select(arr, p.Base))
		}
	default:
		return e.loadPtr(st, p)
	}
	return Value{T: t, L: ls}
}

func (env *Env) sliceExpr(e *spec.SliceEx) Value {
	v := env.eval(e.X)
	sl, ok := types.Unalias(v.T).Underlying().(*types.Slice)
	if !ok {
		specErr("slice expression on non-slice %s", exprString(e.X))
	}
	_ = sl
	lo := zero64
	hi := v.L[slLen]
	if e.Lo != nil {
		lo = env.evalInt64(e.Lo)
	}
	if e.Hi != nil {
		hi = env.evalInt64(e.Hi)
	}
	return Value{T: v.T, L: []smt.Term{v.L[slArr], smt.BVBin("bvadd", v.L[slOff], lo), smt.BVBin("bvsub", hi, lo), smt.BVBin("bvsub", v.L[slCap], lo)}}
}

func (env *Env) quant(e *spec.Quant) Value {
	en := env.x.e
	t := env.resolveType(e.Type)
	ls := en.leaves(t)
	if len(ls) != 1 {
		specErr("quantified variable must be scalar")
	}
	en.qcount++
	vn := fmt.Sprintf("%s!q%d", e.Var, en.qcount)
	c := env.child()
	c.bound = copyMap(env.bound)
	c.bound[e.Var] = scalar(t, smt.Sym(vn, ls[0].Sort))
	// evaluation under a binder must not create named definitions or assumptions mentioning the bound variable
	c.st = env.st.clone()
	if c.st.atLock != nil {
		c.st.atLock = c.st.atLock.clone()
	}
	if env.old != nil {
		c.old = env.old.clone()
	}
	en.ctx.NoName++
	// Quantifiers over slice positions are stated over the absolute index of a pivot slice, so that the
	// select itself is the pattern (offset arithmetic inside a select defeats E-matching).
	if piv := findPivot(e.Body, e.Var); piv != nil && ls[0].Sort == bv64 {
		func() {
			defer func() {
				if r := recover(); r != nil {
					if _, ok := r.(SpecError); !ok {
						panic(r)
					}
				}
			}()
			pv := c.eval(piv)
			if _, ok := types.Unalias(pv.T).Underlying().(*types.Slice); ok {
				off := pv.L[slOff]
				c.bound[e.Var] = scalar(t, smt.Term{S: "(bvsub " + vn + " " + off.S + ")", Sort: bv64})
			}
		}()
	}
	body := c.evalBool(e.Body)
	en.ctx.NoName--
	pats := selectPatterns(body.S, vn)
	q := "exists"
	if e.Forall {
		q = "forall"
	}
	var s string
	if len(pats) > 0 {
		var ps strings.Builder
		for _, p := range pats {
			fmt.Fprintf(&ps, " :pattern (%s)", p)
		}
		s = fmt.Sprintf("(%s ((%s %s)) (! %s%s))", q, vn, ls[0].Sort, body.S, ps.String())
	} else {
		s = fmt.Sprintf("(%s ((%s %s)) %s)", q, vn, ls[0].Sort, body.S)
	}
	return scalar(tBool, smt.Term{S: s, Sort: smt.Bool})
}

// findPivot returns the first expression X such that X[v] occurs in e and X does not mention v.
func findPivot(e spec.Expr, v string) spec.Expr {
	var found spec.Expr
	var mentions func(e spec.Expr) bool
	mentions = func(e spec.Expr) bool {
		m := false
		walkExpr(e, func(x spec.Expr) {
			if id, ok := x.(*spec.Ident); ok && id.Name == v {
				m = true
			}
		})
		return m
	}
	walkExpr(e, func(x spec.Expr) {
		if found != nil {
			return
		}
		if ix, ok := x.(*spec.Index); ok {
			if id, ok := ix.I.(*spec.Ident); ok && id.Name == v && !mentions(ix.X) {
				found = ix.X
			}
		}
	})
	return found
}

func walkExpr(e spec.Expr, f func(spec.Expr)) {
	if e == nil {
		return
	}
	f(e)
	switch e := e.(type) {
	case *spec.Unary:
		walkExpr(e.X, f)
	case *spec.Binary:
		walkExpr(e.X, f)
		walkExpr(e.Y, f)
	case *spec.Cond:
		walkExpr(e.C, f)
		walkExpr(e.A, f)
		walkExpr(e.B, f)
	case *spec.Call:
		walkExpr(e.Fun, f)
		for _, a := range e.Args {
			walkExpr(a, f)
		}
	case *spec.Index:
		walkExpr(e.X, f)
		walkExpr(e.I, f)
	case *spec.SliceEx:
		walkExpr(e.X, f)
		if e.Lo != nil {
			walkExpr(e.Lo, f)
		}
		if e.Hi != nil {
			walkExpr(e.Hi, f)
		}
	case *spec.Sel:
		walkExpr(e.X, f)
	case *spec.Quant:
		walkExpr(e.Body, f)
	}
}

// selectPatterns finds the terms "(select A v)" of s whose index is exactly the variable v and whose
// array A does not itself mention v.
func selectPatterns(s, v string) []string {
	var out []string
	seen := map[string]bool{}
	needle := " " + v + ")"
	for i := 0; i+len(needle) <= len(s); i++ {
		if s[i:i+len(needle)] != needle {
			continue
		}
		// walk back to the matching "(" of this application
		end := i + len(needle)
		depth := 0
		j := end - 1
		for ; j >= 0; j-- {
			if s[j] == ')' {
				depth++
			} else if s[j] == '(' {
				depth--
				if depth == 0 {
					break
				}
			}
		}
		if j < 0 {
			continue
		}
		term := s[j:end]
		if !strings.HasPrefix(term, "(select ") && !strings.HasPrefix(term, "(s.at ") {
			continue
		}
		inner := term[len("(select ") : len(term)-len(needle)]
		if strings.HasPrefix(term, "(s.at ") {
			inner = term[len("(s.at ") : len(term)-len(needle)]
		}
		if strings.Contains(inner, v) {
			continue
		}
		if !seen[term] {
			seen[term] = true
			out = append(out, term)
		}
	}
	return out
}

// resolveType resolves a type expression in the environment's package.
func (env *Env) resolveType(te *spec.TypeExpr) types.Type { return env.resolveTypeIn(te, env.pkgPath) }

func (env *Env) resolveTypeIn(te *spec.TypeExpr, pkgPath string) types.Type {
	en := env.x.e
	var base types.Type
	if te.MapKey != nil {
		base = types.NewMap(env.resolveTypeIn(te.MapKey, pkgPath), env.resolveTypeIn(te.MapVal, pkgPath))
		for i := 0; i < te.Stars; i++ {
			base = types.NewPointer(base)
		}
		if te.Slice {
			base = types.NewSlice(base)
		}
		return base
	}
	if te.Pkg == "" {
		if obj := types.Universe.Lookup(te.Name); obj != nil {
			if tn, ok := obj.(*types.TypeName); ok {
				base = tn.Type()
			}
		}
		if base == nil {
			switch te.Name {
			case "ref":
				base = types.Typ[types.UnsafePointer]
			case "any":
				base = types.NewInterfaceType(nil, nil)
			}
		}
		if base == nil {
			if pk := en.w.Prog.All[pkgPath]; pk != nil && pk.Types != nil {
				if tn, ok := pk.Types.Scope().Lookup(te.Name).(*types.TypeName); ok {
					base = tn.Type()
				}
			}
		}
	} else {
		save := env.pkgPath
		env.pkgPath = pkgPath
		pk := env.importedPkg(te.Pkg)
		env.pkgPath = save
		if pk == nil {
			pk = en.w.TypesPkg(te.Pkg)
		}
		if pk != nil {
			if tn, ok := pk.Scope().Lookup(te.Name).(*types.TypeName); ok {
				base = tn.Type()
			}
		}
	}
	if base == nil && te.Pkg == "" {
		base = env.typeParamNamed(te.Name)
	}
	if base == nil {
		specErr("unknown type %s", te)
	}
	for i := 0; i < te.Stars; i++ {
		base = types.NewPointer(base)
	}
	if te.Slice {
		base = types.NewSlice(base)
	}
	return base
}

// typeParamNamed resolves the name of a type parameter of a generic type through the values in scope: a value of type
// *Map[string, Socket] binds TKey to string; inside the generic method itself TKey stays the type parameter.
func (env *Env) typeParamNamed(name string) types.Type {
	look := func(t types.Type) types.Type {
		n := namedOf(t)
		if n == nil {
			return nil
		}
		tps := n.Origin().TypeParams()
		for i := 0; i < tps.Len(); i++ {
			if tps.At(i).Obj().Name() != name {
				continue
			}
			if args := n.TypeArgs(); args != nil && i < args.Len() {
				return args.At(i)
			}
			return tps.At(i)
		}
		return nil
	}
	var keys []string
	for k := range env.names {
		keys = append(keys, k)
	}
	sort.Strings(keys)
	for _, k := range keys {
		if v := env.names[k]; v.T != nil {
			if t := look(v.T); t != nil {
				return t
			}
		}
	}
	if env.oldNames != nil {
		keys = keys[:0]
		for k := range env.oldNames {
			keys = append(keys, k)
		}
		sort.Strings(keys)
		for _, k := range keys {
			if v := env.oldNames[k]; v.T != nil {
				if t := look(v.T); t != nil {
					return t
				}
			}
		}
	}
	return nil
}

func exprString(e spec.Expr) string {
	switch e := e.(type) {
	case *spec.Ident:
		return e.Name
	case *spec.Lit:
		if e.Kind == "string" {
			return fmt.Sprintf("%q", e.Val)
		}
		return e.Val
	case *spec.Unary:
		return e.Op + exprString(e.X)
	case *spec.Binary:
		return "(" + exprString(e.X) + " " + e.Op + " " + exprString(e.Y) + ")"
	case *spec.Cond:
		return "(" + exprString(e.C) + " ? " + exprString(e.A) + " : " + exprString(e.B) + ")"
	case *spec.Sel:
		if te, ok := e.X.(*spec.TypeExpr); ok && te.Stars > 0 {
			return "(" + te.String() + ")." + e.Name
		}
		return exprString(e.X) + "." + e.Name
	case *spec.Index:
		return exprString(e.X) + "[" + exprString(e.I) + "]"
	case *spec.SliceEx:
		lo, hi := "", ""
		if e.Lo != nil {
			lo = exprString(e.Lo)
		}
		if e.Hi != nil {
			hi = exprString(e.Hi)
		}
		return exprString(e.X) + "[" + lo + ":" + hi + "]"
	case *spec.Call:
		var as []string
		for _, a := range e.Args {
			as = append(as, exprString(a))
		}
		return exprString(e.Fun) + "(" + strings.Join(as, ", ") + ")"
	case *spec.Quant:
		q := "exists"
		if e.Forall {
			q = "forall"
		}
		return q + " " + e.Var + " " + e.Type.String() + " :: " + exprString(e.Body)
	case *spec.TypeExpr:
		return e.String()
	}
	return "?"
}
