package vc

import (
	"govc/internal/spec"
	"fmt"
	"go/types"
	"strings"

	"golang.org/x/tools/go/ssa"
	"govc/internal/smt"
)

func (x *exec) builtin(st *State, fr *Frame, ins ssa.Instruction, b *ssa.Builtin, c *ssa.CallCommon, args []Value) []Value {
	e := x.e
	tInt := types.Typ[types.Int]
	switch b.Name() {
	case "len", "cap":
		a := args[0]
		switch t := types.Unalias(a.T).Underlying().(type) {
		case *types.Slice:
			if b.Name() == "len" {
				return []Value{scalar(tInt, a.L[slLen])}
			}
			return []Value{scalar(tInt, a.L[slCap])}
		case *types.Basic:
			return []Value{scalar(tInt, e.strLen(a.one()))}
		case *types.Map:
			f := e.ctx.Fun("map.len", []smt.Sort{smt.Ref, smt.Int}, bv64)
			n := e.ctx.Name("maplen", smt.App(bv64, f, a.one(), smt.IntLit(int64(st.gen*1000000+len(st.heap)))))
			st.assume(smt.BVCmp("bvsge", n, zero64))
			st.assume(smt.BVCmp("bvsle", n, smt.BVLit(1<<46, 64))) // a map holds no more entries than memory can
			// a map of length zero (the nil map included) holds no key
			{
				hk, ks, _, _ := x.mapKeys(t)
				inner := e.ctx.Name("lenhas", smt.Select(e.heapArr(st, hk, smt.Ref, smt.ArrayOf(ks, smt.Bool)), a.one()))
				q := fmt.Sprintf("(forall ((k!ln %s)) (! (not (select %s k!ln)) :pattern ((select %s k!ln))))", ks, inner.S, inner.S)
				st.assume(smt.Implies(smt.And(smt.Eq(n, zero64), smt.Not(smt.Eq(a.one(), e.null()))), smt.Term{S: q, Sort: smt.Bool}))
				st.assume(smt.Implies(smt.Eq(a.one(), e.null()), smt.Eq(n, zero64)))
			}
			return []Value{scalar(tInt, n)}
		case *types.Pointer:
			if at, ok := types.Unalias(t.Elem()).Underlying().(*types.Array); ok {
				return []Value{scalar(tInt, smt.BVLit(uint64(at.Len()), 64))}
			}
		case *types.Array:
			return []Value{scalar(tInt, smt.BVLit(uint64(t.Len()), 64))}
		case *types.Chan:
			n := e.ctx.Fresh("chanlen", bv64)
			st.assume(smt.BVCmp("bvsge", n, zero64))
			return []Value{scalar(tInt, n)}
		}
		unsupported("%s of %v", b.Name(), a.T)
	case "append":
		return []Value{x.appendOp(st, args[0], args[1])}
	case "copy":
		return []Value{scalar(tInt, x.copyOp(st, args[0], args[1]))}
	case "delete":
		m := args[0]
		mt := types.Unalias(m.T).Underlying().(*types.Map)
		hk, ks, _, _ := x.mapKeys(mt)
		k := e.leavesOf(args[1])[0]
		harr := e.heapArr(st, hk, smt.Ref, smt.ArrayOf(ks, smt.Bool))
		e.setHeapArr(st, hk, smt.Store(harr, m.one(), smt.Store(smt.Select(harr, m.one()), k, smt.False)))
		return nil
	case "clear":
		m := args[0]
		mt, ok := types.Unalias(m.T).Underlying().(*types.Map)
		if !ok {
			unsupported("clear of %v", m.T)
		}
		// clear(m): no key remains (a nil map is left alone)
		hk, ks, _, _ := x.mapKeys(mt)
		harr := e.heapArr(st, hk, smt.Ref, smt.ArrayOf(ks, smt.Bool))
		vs := smt.ArrayOf(ks, smt.Bool)
		empty := smt.Term{S: fmt.Sprintf("((as const %s) false)", vs), Sort: vs}
		e.setHeapArr(st, hk, smt.Ite(smt.Eq(m.one(), e.null()), harr, smt.Store(harr, m.one(), empty)))
		return nil
	case "print", "println":
		return nil
	case "recover":
		return []Value{e.zero(types.NewInterfaceType(nil, nil))}
	case "ssa:wrapnilchk":
		return []Value{args[0]}
	case "ssa:deferstack":
		return []Value{Value{T: b.Type().(*types.Signature).Results().At(0).Type(), L: []smt.Term{e.null()}}}
	case "min", "max":
		w, signed, ok := intInfo(args[0].T)
		if !ok {
			unsupported("%s on %v", b.Name(), args[0].T)
		}
		_ = w
		acc := args[0].one()
		for _, a := range args[1:] {
			op := "bvult"
			if signed {
				op = "bvslt"
			}
			lt := smt.BVCmp(op, a.one(), acc)
			if b.Name() == "max" {
				lt = smt.BVCmp(op, acc, a.one())
			}
			acc = e.ctx.Name("mm", smt.Ite(lt, a.one(), acc))
		}
		return []Value{scalar(args[0].T, acc)}
	case "close":
		// closing a channel: no effect on verified state; recorded as a quiet event (calls(chan.close), arg(chan.close, k, ch))
		x.recordEventVals(st, ins, "chan:close", "chan", []Value{args[0]}, []string{"ch"})
		st.trace[len(st.trace)-1].Quiet = true
		return nil
	}
	unsupported("builtin %s", b.Name())
	return nil
}

// memArr returns the element memory array for one leaf of elem.
func (x *exec) memArr(st *State, elem types.Type, l Leaf) (string, smt.Term) {
	key := memKeyPrefix(elem) + l.Path
	return key, x.e.heapArr(st, key, smt.Ref, smt.ArrayOf(bv64, l.Sort))
}

// quantArr declares a fresh inner array constrained point-wise: forall k. a[k] = body(k).
func (x *exec) quantArr(st *State, hint string, elemSort smt.Sort, body func(k smt.Term) smt.Term) smt.Term {
	e := x.e
	a := e.ctx.Fresh(hint, smt.ArrayOf(bv64, elemSort))
	kv := smt.Sym("k!q", bv64)
	b := body(kv)
	q := fmt.Sprintf("(forall ((k!q (_ BitVec 64))) (! (= (select %s k!q) %s) :pattern ((select %s k!q))))", a.S, b.S, a.S)
	st.assume(smt.Term{S: q, Sort: smt.Bool})
	return a
}

func inRange(lo, k, hi smt.Term) smt.Term {
	return smt.And(smt.BVCmp("bvsle", lo, k), smt.BVCmp("bvslt", k, hi))
}

// appendOp models append(s, t...) without splitting the path (see DESIGN appendix A).
func (x *exec) appendOp(st *State, s, t Value) Value {
	e := x.e
	elem := types.Unalias(s.T).Underlying().(*types.Slice).Elem()
	sArr, sOff, sLen, sCap := s.L[slArr], s.L[slOff], s.L[slLen], s.L[slCap]
	var n smt.Term
	tIsStr := false
	if bt, ok := types.Unalias(t.T).Underlying().(*types.Basic); ok && bt.Info()&types.IsString != 0 {
		tIsStr = true
		n = e.strLen(t.one())
	} else {
		n = t.L[slLen]
	}
	newLen := e.ctx.Name("aplen", smt.BVBin("bvadd", sLen, n))
	caseA := e.ctx.Name("apA", smt.Eq(n, zero64))
	fits := e.ctx.Name("apB", smt.BVCmp("bvsle", newLen, sCap))
	keep := e.ctx.Name("apKeep", smt.Or(caseA, fits))
	x.lastAppendKeep = &keep
	r := e.newRef(st, "grown")
	capC := e.ctx.Fresh("apcap", bv64)
	st.assume(smt.And(smt.BVCmp("bvsle", newLen, capC), smt.BVCmp("bvsle", capC, smt.BVLit(1<<46, 64))))
	for _, l := range e.leaves(elem) {
		key, mem := x.memArr(st, elem, l)
		sInner := e.ctx.Name("sIn", smt.Select(mem, sArr))
		var tAt func(i smt.Term) smt.Term
		if tIsStr {
			tAt = func(i smt.Term) smt.Term { return e.strAt(t.one(), i) }
		} else {
			tInner := e.ctx.Name("tIn", smt.Select(mem, t.L[slArr]))
			tOff := t.L[slOff]
			tAt = func(i smt.Term) smt.Term { return smt.Select(tInner, smt.BVBin("bvadd", tOff, i)) }
		}
		tail := e.ctx.Name("aptail", smt.BVBin("bvadd", sOff, sLen))
		innerB := x.quantArr(st, "apInB", l.Sort, func(k smt.Term) smt.Term {
			return smt.Ite(inRange(tail, k, smt.BVBin("bvadd", tail, n)), tAt(smt.BVBin("bvsub", k, tail)), smt.Select(sInner, k))
		})
		innerC := x.quantArr(st, "apInC", l.Sort, func(k smt.Term) smt.Term {
			return smt.Ite(inRange(zero64, k, sLen), smt.Select(sInner, smt.BVBin("bvadd", sOff, k)),
				smt.Ite(inRange(sLen, k, newLen), tAt(smt.BVBin("bvsub", k, sLen)), e.zeroLeaf(l.Sort)))
		})
		m1 := smt.Store(mem, sArr, smt.Ite(smt.And(fits, smt.Not(caseA)), innerB, sInner))
		if sArr.S == e.null().S {
			// append to the nil slice (the copying idiom append([]T(nil), xs...)): nothing can be written in place
			m1 = mem
		}
		m2 := smt.Store(m1, r, innerC)
		e.setHeapArr(st, key, m2)
	}
	return Value{T: s.T, L: []smt.Term{
		e.ctx.Name("aparr", smt.Ite(keep, sArr, r)),
		e.ctx.Name("apoff", smt.Ite(keep, sOff, zero64)),
		newLen,
		e.ctx.Name("apcap", smt.Ite(keep, sCap, capC)),
	}}
}

// copyOp models copy(dst, src) and returns the number of elements copied.
func (x *exec) copyOp(st *State, d, s Value) smt.Term {
	e := x.e
	elem := types.Unalias(d.T).Underlying().(*types.Slice).Elem()
	var sLen smt.Term
	sIsStr := false
	if bt, ok := types.Unalias(s.T).Underlying().(*types.Basic); ok && bt.Info()&types.IsString != 0 {
		sIsStr = true
		sLen = e.strLen(s.one())
	} else {
		sLen = s.L[slLen]
	}
	n := e.ctx.Name("cpn", smt.Ite(smt.BVCmp("bvslt", d.L[slLen], sLen), d.L[slLen], sLen))
	for _, l := range e.leaves(elem) {
		key, mem := x.memArr(st, elem, l)
		dInner := e.ctx.Name("dIn", smt.Select(mem, d.L[slArr]))
		var sAt func(i smt.Term) smt.Term
		if sIsStr {
			sAt = func(i smt.Term) smt.Term { return e.strAt(s.one(), i) }
		} else {
			sInner := e.ctx.Name("sIn", smt.Select(mem, s.L[slArr]))
			sAt = func(i smt.Term) smt.Term { return smt.Select(sInner, smt.BVBin("bvadd", s.L[slOff], i)) }
		}
		dOff := d.L[slOff]
		inner := x.quantArr(st, "cpIn", l.Sort, func(k smt.Term) smt.Term {
			return smt.Ite(inRange(dOff, k, smt.BVBin("bvadd", dOff, n)), sAt(smt.BVBin("bvsub", k, dOff)), smt.Select(dInner, k))
		})
		e.setHeapArr(st, key, smt.Store(mem, d.L[slArr], inner))
	}
	return n
}

// fieldIndex finds a field by name in a struct type.
func fieldIndex(t types.Type, name string) int {
	st, ok := types.Unalias(t).Underlying().(*types.Struct)
	if !ok {
		return -1
	}
	for i := 0; i < st.NumFields(); i++ {
		if st.Field(i).Name() == name {
			return i
		}
	}
	return -1
}

// intrinsic models a few standard-library primitives directly on the heap.
func (x *exec) intrinsic(st *State, fr *Frame, ins ssa.Instruction, ci calleeInfo, args []Value) ([]Value, bool) {
	e := x.e
	key := ci.key
	switch {
	case strings.HasPrefix(key, "(*sync/atomic."):
		recvT := strings.TrimPrefix(key[:strings.Index(key, ")")], "(*sync/atomic.")
		m := key[strings.Index(key, ")")+2:]
		p := x.ptrOf(args[0])
		x.nilCheck(st, ins, p)
		elemT := func() types.Type { _, t := e.followPath(p.Root, p.Path); return t }()
		vi := fieldIndex(elemT, "v")
		if vi < 0 {
			return nil, false
		}
		fp := *p
		fp.Path = append(append([]int(nil), p.Path...), vi)
		_, ft := e.followPath(fp.Root, fp.Path)
		load := func() Value { return x.loadVia(st, &fp) }
		store := func(v Value) { v.T = ft; x.storeVia(st, &fp, v) }
		res := ci.sig.Results()
		switch recvT {
		case "Value":
			switch m {
			case "Load":
				v := load()
				return []Value{v.withT(res.At(0).Type())}, true
			case "Store":
				x.safe(st, ins, "atomic.Value.Store(nil)", smt.Not(smt.Eq(args[1].one(), e.nilIface())))
				store(args[1])
				return nil, true
			case "Swap":
				old := load()
				store(args[1])
				return []Value{old.withT(res.At(0).Type())}, true
			case "CompareAndSwap":
				old := load()
				eq := e.ctx.Name("cas", smt.Eq(old.one(), args[1].one()))
				store(scalar(ft, smt.Ite(eq, args[2].one(), old.one())))
				return []Value{scalar(types.Typ[types.Bool], eq)}, true
			}
		case "Bool":
			one, zero := smt.BVLit(1, 32), smt.BVLit(0, 32)
			toB := func(v Value) smt.Term { return smt.Not(smt.Eq(v.one(), zero)) }
			fromB := func(b smt.Term) Value { return scalar(ft, smt.Ite(b, one, zero)) }
			switch m {
			case "Load":
				return []Value{scalar(types.Typ[types.Bool], toB(load()))}, true
			case "Store":
				store(fromB(args[1].one()))
				return nil, true
			case "Swap":
				old := toB(load())
				store(fromB(args[1].one()))
				return []Value{scalar(types.Typ[types.Bool], e.ctx.Name("old", old))}, true
			case "CompareAndSwap":
				old := toB(load())
				eq := e.ctx.Name("cas", smt.Eq(old, args[1].one()))
				store(fromB(smt.Ite(eq, args[2].one(), old)))
				return []Value{scalar(types.Typ[types.Bool], eq)}, true
			}
		case "Pointer":
			switch m {
			case "Load":
				v := load()
				return []Value{Value{T: res.At(0).Type(), L: v.L}}, true
			case "Store":
				store(Value{L: e.leavesOf(args[1])})
				return nil, true
			case "Swap":
				old := load()
				store(Value{L: e.leavesOf(args[1])})
				return []Value{Value{T: res.At(0).Type(), L: old.L}}, true
			case "CompareAndSwap":
				old := load()
				eq := e.ctx.Name("cas", smt.Eq(old.one(), e.leavesOf(args[1])[0]))
				store(scalar(ft, smt.Ite(eq, e.leavesOf(args[2])[0], old.one())))
				return []Value{scalar(types.Typ[types.Bool], eq)}, true
			}
		case "Int32", "Int64", "Uint32", "Uint64", "Uintptr":
			switch m {
			case "Load":
				return []Value{load().withT(res.At(0).Type())}, true
			case "Store":
				store(args[1])
				return nil, true
			case "Add":
				nv := scalar(ft, e.ctx.Name("add", smt.BVBin("bvadd", load().one(), args[1].one())))
				store(nv)
				return []Value{nv.withT(res.At(0).Type())}, true
			case "Swap":
				old := load()
				store(args[1])
				return []Value{old.withT(res.At(0).Type())}, true
			case "CompareAndSwap":
				old := load()
				eq := e.ctx.Name("cas", smt.Eq(old.one(), args[1].one()))
				store(scalar(ft, smt.Ite(eq, args[2].one(), old.one())))
				return []Value{scalar(types.Typ[types.Bool], eq)}, true
			}
		}
		return nil, false
	case key == "(*sync.Mutex).Lock" || key == "(*sync.Mutex).Unlock" || key == "(*sync.RWMutex).Lock" || key == "(*sync.RWMutex).Unlock" ||
		key == "(*sync.RWMutex).RLock" || key == "(*sync.RWMutex).RUnlock" || key == "(*sync.Mutex).TryLock":
		p := x.ptrOf(args[0])
		x.nilCheck(st, ins, p)
		m := key[strings.Index(key, ")")+2:]
		cur := x.lockState(st, p)
		var nv smt.Term
		switch m {
		case "Lock":
			x.lockObligation(st, ins, "lock-free-before-Lock", smt.Eq(cur, zero64))
			nv = smt.BVLit(2, 64)
		case "RLock":
			x.lockObligation(st, ins, "lock-not-write-held-before-RLock", smt.Not(smt.Eq(cur, smt.BVLit(2, 64))))
			nv = smt.BVLit(1, 64)
		case "Unlock":
			x.lockObligation(st, ins, "lock-held-before-Unlock", smt.Eq(cur, smt.BVLit(2, 64)))
			nv = zero64
		case "RUnlock":
			x.lockObligation(st, ins, "lock-held-before-RUnlock", smt.Eq(cur, smt.BVLit(1, 64)))
			nv = zero64
		case "TryLock":
			ok := e.ctx.Fresh("trylock", smt.Bool)
			st.assume(smt.Implies(ok, smt.Eq(cur, zero64)))
			x.setLockState(st, p, smt.Ite(ok, smt.BVLit(2, 64), cur))
			return []Value{scalar(types.Typ[types.Bool], ok)}, true
		}
		x.setLockState(st, p, nv)
		switch m {
		case "Lock", "RLock":
			x.monitorAcquire(st, fr, ins, p)
		case "Unlock", "RUnlock":
			x.monitorRelease(st, fr, ins, p)
		}
		return nil, true
	}
	return nil, false
}

// monitorOf finds the monitor clause of the unit whose lock expression designates the mutex p.
func (x *exec) monitorOf(st *State, fr *Frame, p *Ptr) (*spec.Monitor, *Env) {
	if x.unit == nil || x.unit.Spec == nil || len(x.unit.Spec.Monitors) == 0 {
		return nil, nil
	}
	for _, mo := range x.unit.Spec.Monitors {
		sel, ok := mo.Lock.(*spec.Sel)
		if !ok {
			specErr("monitor: the lock must be a field selector")
		}
		env := x.unitEnv(st, fr)
		env.frame = nil // the monitor clause speaks about the unit's parameters
		lp := env.lvalPtr(sel)
		if lp.Kind == p.Kind && lp.Base.S == p.Base.S && typeKey(lp.Root) == typeKey(p.Root) && fmt.Sprint(lp.Path) == fmt.Sprint(p.Path) {
			return mo, env
		}
	}
	return nil, nil
}

// monitorAcquire: the unit has just acquired a mutex declared as a monitor. Whatever it knew about the guarded locations
// is stale - other goroutines may have run their critical sections while this one waited; only the monitor invariant is
// known about them now. The state reached is remembered as the "atlock" state of the path.
func (x *exec) monitorAcquire(st *State, fr *Frame, ins ssa.Instruction, p *Ptr) {
	mo, env := x.monitorOf(st, fr, p)
	if mo == nil {
		return
	}
	for _, g := range mo.Guards {
		var before Value
		sel, isSel := g.(*spec.Sel)
		if isSel && !strings.HasPrefix(sel.Name, "$") {
			before = x.loadVia(st, env.lvalPtr(sel))
		}
		env.havocLocation(st, g)
		if isSel && !strings.HasPrefix(sel.Name, "$") {
			// what another goroutine installs in a guarded pointer field is an object it allocated meanwhile (or nil); an
			// object that existed when this unit started and was not installed then is not installed now
			after := x.loadVia(st, env.lvalPtr(sel))
			for i := range after.L {
				if after.L[i].Sort == smt.Ref && i < len(before.L) && x.unit.entry != nil {
					st.assume(smt.Or(smt.Eq(after.L[i], before.L[i]), smt.Eq(after.L[i], x.e.null()), smt.IntBin(">", x.e.stamp(after.L[i]), x.unit.entry.clock)))
				}
			}
		}
	}
	env2 := x.unitEnv(st, fr)
	env2.frame = nil
	env2.foreignAlloc = true
	st.assume(env2.evalBool(mo.Inv.Expr))
	st.atLock = st.snapshot()
	x.e.note("monitor %s of %s: guarded locations re-read at acquisition (invariant assumed there, proved at release); objects the invariant calls allocated are assumed not to be allocations of this unit (it cannot have published them into the guarded state without the lock)", exprString(mo.Lock), x.unit.Name)
}

// monitorRelease: the monitor invariant is an obligation when the mutex is released.
func (x *exec) monitorRelease(st *State, fr *Frame, ins ssa.Instruction, p *Ptr) {
	mo, env := x.monitorOf(st, fr, p)
	if mo == nil {
		return
	}
	g := x.guardedGoal(env, mo.Inv.Expr)
	x.e.obligation(st, "monitor", "release"+x.siteName(ins)+":"+clauseName(mo.Inv, 0), mo.Inv.Tag, "monitor invariant holds when the lock is released: "+mo.Inv.Text, mo.Inv.Pos.String(), g)
}

func (x *exec) lockKey(p *Ptr) (string, bool) {
	prefix, _ := x.e.followPath(p.Root, p.Path)
	switch p.Kind {
	case PtrHeap:
		return objKeyPrefix(p.Root) + prefix + ".$held", true
	}
	return "", false
}

func (x *exec) lockState(st *State, p *Ptr) smt.Term {
	key, ok := x.lockKey(p)
	if !ok {
		unsupported("mutex that is not a field of a heap object")
	}
	return smt.Select(x.e.heapArr(st, key, smt.Ref, bv64), p.Base)
}

func (x *exec) setLockState(st *State, p *Ptr, v smt.Term) {
	key, _ := x.lockKey(p)
	arr := x.e.heapArr(st, key, smt.Ref, bv64)
	x.e.setHeapArr(st, key, smt.Store(arr, p.Base, v))
}

func (x *exec) lockObligation(st *State, ins ssa.Instruction, what string, goal smt.Term) {
	if x.unit == nil || x.unit.Spec == nil || x.unit.Spec.Opts["locks"] == "" {
		st.assume(goal)
		return
	}
	x.e.obligation(st, "lock", what+x.siteName(ins), "C20.lock", what, posString(x.e.w.fset(), ins.Pos()), goal)
	st.assume(goal)
}
