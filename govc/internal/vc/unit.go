package vc

import (
	"fmt"
	"go/types"
	"runtime/debug"
	"sort"
	"strings"

	"golang.org/x/tools/go/ssa"
	"govc/internal/smt"
	"govc/internal/spec"
)

// Unit is one function (or closure) under verification.
type Unit struct {
	Name       string
	Key        string
	Fn         *ssa.Function
	Spec       *spec.FuncSpec
	entry      *State
	entryNames map[string]Value
	excl       []frameExcl
}

// UnitResult is the outcome of VC generation for one unit.
type UnitResult struct {
	Unit        string
	Key         string
	Header      string // SMT declarations
	Obligations []*Obligation
	Err         string // outside-subset or contract error
	Notes       []string
	Trusted     []string
	Paths       int
	Props       []string
	Pos         string
	HasContract bool
	StaleCallSites []string
	UsedContracts []string // in-repo contracts applied at call sites of this unit
	ModelTerms  []ModelTerm // entry-state terms worth printing from a counterexample
}

// ModelTerm labels an SMT term of the entry state (parameter or field reachable from a parameter).
type ModelTerm struct {
	Label string
	Term  string
	Sort  string // SMT sort of the term ("" when unknown); 64-bit entry values are minimised before a replay
	Entry bool   // a value of the entry state (an input), as opposed to a result or a path-specific value
}

// UnitsFor lists the units relevant to a property ("" = every contracted function).
func (w *World) UnitsFor(prop string) []*Unit {
	var out []*Unit
	for _, key := range sortedKeys(w.Contracts) {
		fs := w.Contracts[key]
		if fs.External || fs.Trusted != "" {
			continue
		}
		fn := w.funcByKey[key]
		if fn == nil || fn.Blocks == nil {
			continue
		}
		if prop != "" && !specMentions(fs, prop) {
			continue
		}
		out = append(out, &Unit{Name: shortKey(key), Key: key, Fn: fn, Spec: fs})
	}
	return out
}

// UnitByKey returns the verification unit of an in-repo function under a (non-trusted) contract, or nil when the key is
// an interface method, an external or trusted contract, or a function without body.
func (w *World) UnitByKey(key string) *Unit {
	fs := w.Contracts[key]
	if fs == nil || fs.External || fs.Trusted != "" {
		return nil
	}
	fn := w.funcByKey[key]
	if fn == nil || fn.Blocks == nil {
		return nil
	}
	return &Unit{Name: shortKey(key), Key: key, Fn: fn, Spec: fs}
}

// ImplKeys lists the keys of the methods that implement an interface-method contract key for the types coupled with the
// interface by "represents" directives, e.g. (pkg.Transport).Writable -> (*pkg.transport).Writable.
func (w *World) ImplKeys(ifaceKey string) []string {
	if !strings.HasPrefix(ifaceKey, "(") {
		return nil
	}
	i := strings.Index(ifaceKey, ")")
	tn, m := ifaceKey[1:i], strings.TrimPrefix(ifaceKey[i+1:], ".")
	seen := map[string]bool{}
	var out []string
	for _, rp := range w.Reps {
		if rp.Pkg+"."+rp.Iface != tn {
			continue
		}
		impl := strings.TrimSuffix(strings.TrimPrefix(rp.Impl, "("), ")")
		star := ""
		if strings.HasPrefix(impl, "*") {
			star, impl = "*", impl[1:]
		}
		k := "(" + star + rp.Pkg + "." + impl + ")." + m
		if !seen[k] {
			seen[k] = true
			out = append(out, k)
		}
	}
	return out
}

// Overrides lists, for an interface-method contract key, the functions of the module that some type implementing the
// interface declares for that method itself (not promoted from an embedded type that is coupled with the interface), split
// into those under contract and those without one. A model contract says nothing about an implementation that was never
// checked against it: an override without a contract leaves what callers assume about the method unestablished.
func (w *World) Overrides(ifaceKey string) (contracted, uncontracted []string) {
	if !strings.HasPrefix(ifaceKey, "(") {
		return nil, nil
	}
	i := strings.Index(ifaceKey, ")")
	tn, m := ifaceKey[1:i], strings.TrimPrefix(ifaceKey[i+1:], ".")
	j := strings.LastIndex(tn, ".")
	if j < 0 {
		return nil, nil
	}
	tp := w.TypesPkg(tn[:j])
	if tp == nil {
		return nil, nil
	}
	obj, ok := tp.Scope().Lookup(tn[j+1:]).(*types.TypeName)
	if !ok {
		return nil, nil
	}
	it, ok := obj.Type().Underlying().(*types.Interface)
	if !ok {
		return nil, nil
	}
	coupled := map[string]bool{}
	for _, k := range w.ImplKeys(ifaceKey) {
		coupled[k] = true
	}
	seen := map[string]bool{}
	for _, pk := range w.Prog.Pkgs {
		if pk.Types == nil {
			continue
		}
		sc := pk.Types.Scope()
		for _, name := range sc.Names() {
			tno, ok := sc.Lookup(name).(*types.TypeName)
			if !ok || tno.IsAlias() {
				continue
			}
			if _, isIface := tno.Type().Underlying().(*types.Interface); isIface {
				continue
			}
			if nt, ok := tno.Type().(*types.Named); ok && nt.TypeParams().Len() > 0 {
				continue
			}
			pt := types.NewPointer(tno.Type())
			if !types.Implements(pt, it) && !types.Implements(tno.Type(), it) {
				continue
			}
			mo, _, _ := types.LookupFieldOrMethod(pt, true, pk.Types, m)
			fo, ok := mo.(*types.Func)
			if !ok {
				continue
			}
			fn := w.Prog.SSA.FuncValue(fo)
			if fn == nil || fn.Blocks == nil || !w.Prog.InModule(pkgPathOf(fn)) {
				continue
			}
			k := FuncKey(fn)
			if seen[k] || coupled[k] {
				continue
			}
			seen[k] = true
			if fs := w.Contracts[k]; fs != nil {
				contracted = append(contracted, k)
			} else {
				uncontracted = append(uncontracted, k)
			}
		}
	}
	sort.Strings(contracted)
	sort.Strings(uncontracted)
	return
}

// ContractKind classifies a contract key for the evidence: "interface-model" (contract of an interface method, a model
// that in-repo implementations are assumed to satisfy), "trusted", "external", "verified" (has a body and a unit) or "".
func (w *World) ContractKind(key string) string {
	fs := w.Contracts[key]
	switch {
	case fs == nil:
		return ""
	case fs.External:
		return "external"
	case fs.Trusted != "":
		return "trusted"
	case w.isInterfaceMethodKey(key):
		return "interface-model"
	}
	if fn := w.funcByKey[key]; fn != nil && fn.Blocks != nil {
		return "verified"
	}
	return "no-body"
}

// ShortKey abbreviates a canonical function key the way unit names do.
func ShortKey(key string) string { return shortKey(key) }

// UnitInFiles reports whether the unit's function is declared in one of the module-relative files.
func (w *World) UnitInFiles(u *Unit, files []string) bool {
	pos := w.Prog.Fset.Position(u.Fn.Pos())
	for _, f := range files {
		if strings.HasSuffix(pos.Filename, "/"+f) {
			return true
		}
	}
	return false
}

// SweepUnits lists every function of the given module-relative files that has a body, contract or not.
func (w *World) SweepUnits(files []string) []*Unit {
	var out []*Unit
	for _, fn := range w.allFuncs {
		if fn.Blocks == nil || fn.Synthetic != "" {
			continue
		}
		pos := w.Prog.Fset.Position(fn.Pos())
		ok := false
		for _, f := range files {
			if strings.HasSuffix(pos.Filename, "/"+f) {
				ok = true
			}
		}
		if !ok {
			continue
		}
		key := FuncKey(fn)
		out = append(out, &Unit{Name: shortKey(key), Key: key, Fn: fn, Spec: w.Contracts[key]})
	}
	sort.Slice(out, func(i, j int) bool { return out[i].Key < out[j].Key })
	return out
}

func specMentions(fs *spec.FuncSpec, prop string) bool {
	for _, p := range fs.Props {
		if p == prop {
			return true
		}
	}
	has := func(tag string) bool { return TagHasProp(tag, prop) }
	for _, c := range fs.Requires {
		if has(c.Tag) {
			return true
		}
	}
	for _, c := range fs.Ensures {
		if has(c.Tag) {
			return true
		}
	}
	for _, l := range fs.Loops {
		for _, c := range l.Invariants {
			if has(c.Tag) {
				return true
			}
		}
		if l.Decreases != nil && has(l.Decreases.Tag) {
			return true
		}
	}
	for _, cs := range fs.CallSites {
		for _, c := range cs.Asserts {
			if has(c.Tag) {
				return true
			}
		}
	}
	for _, c := range fs.Census {
		if has(c.Tag) {
			return true
		}
	}
	for _, m := range fs.Monitors {
		if m.Inv != nil && has(m.Inv.Tag) {
			return true
		}
	}
	return false
}

// TagHasProp reports whether a clause tag ("C14.kind" or "C13.x,C01.y") names the property.
func TagHasProp(tag, prop string) bool {
	for _, t := range strings.Split(tag, ",") {
		t = strings.TrimSpace(t)
		if i := strings.Index(t, "."); i > 0 {
			t = t[:i]
		}
		if t == prop {
			return true
		}
	}
	return false
}

// Belongs reports whether an obligation counts for a property.
func (r *UnitResult) Belongs(o *Obligation, prop string) bool {
	if prop == "" {
		return true
	}
	if o.Tag != "" && TagHasProp(o.Tag, prop) {
		return true
	}
	inProps := false
	for _, p := range r.Props {
		if p == prop {
			inProps = true
		}
	}
	if !inProps {
		return false
	}
	// helper obligations of a unit listed under the property
	if o.Tag == "" {
		return true
	}
	switch o.Kind {
	case "safe", "lock":
		return true
	}
	return false
}

// Verify generates the verification conditions of one unit.
func (w *World) Verify(u *Unit) *UnitResult { return w.VerifyWith(u, nil) }

// VerifyWith additionally splits the named obligations by the input classes of known findings:
// "goal under not K" keeps the name, "goal under K" becomes <name>|known (expected to fail).
func (w *World) VerifyWith(u *Unit, classes map[string][]string) (res *UnitResult) {
	e := newEngine(w, u.Name)
	res = &UnitResult{Unit: u.Name, Key: u.Key, Pos: posString(w.fset(), u.Fn.Pos()), HasContract: u.Spec != nil}
	if u.Spec != nil {
		res.Props = u.Spec.Props
	}
	defer func() {
		if r := recover(); r != nil {
			switch r := r.(type) {
			case Unsupported:
				res.Err = r.Error()
			case SpecError:
				res.Err = r.Error()
			case noSuchEvent:
				res.Err = fmt.Sprintf("contract error: reference to call #%d of %s which never happens", r.k, r.key)
			default:
				res.Err = fmt.Sprintf("internal error: %v\n%s", r, debug.Stack())
			}
		}
		res.Header = e.finish()
		res.Obligations = e.obls
		res.Notes = e.notes
		for k := range e.trustedUsed {
			res.Trusted = append(res.Trusted, k)
		}
		sort.Strings(res.Trusted)
		for k := range e.contractsUsed {
			res.UsedContracts = append(res.UsedContracts, k)
		}
		sort.Strings(res.UsedContracts)
		res.Paths = e.paths
	}()
	x := &exec{e: e, unitFn: u.Fn, unit: u, siteOrd: map[string]map[ssa.Instruction]int{}, loopsOf: map[*ssa.Function]*loopInfo{},
		callOrd: map[*ssa.Function]map[ssa.Instruction]int{}, closures: map[string]*closureInfo{}, calleeNameCache: map[string]string{}}
	e.curUnit = u
	e.x = x
	fn := u.Fn
	st := &State{locals: map[*ssa.Alloc]Value{}, regs: map[ssa.Value]Value{}, heap: map[string]smt.Term{}}
	clk0 := e.ctx.Const("clk0", smt.Int)
	e.ctx.Axiom(smt.IntBin(">=", clk0, smt.IntLit(0)))
	e.ctx.Axiom(smt.Eq(e.stamp(e.null()), smt.IntLit(0)))
	st.clock = clk0
	// global axioms from spec files
	for _, ax := range w.Axioms {
		env := x.newEnv(st, nil)
		env.pkgPath = ax.Pkg
		e.ctx.Axiom(env.evalBool(ax.Clause.Expr))
	}
	u.entryNames = map[string]Value{}
	if fn.Name() == "init" && fn.Synthetic != "" && fn.Pkg != nil {
		// the package initialiser runs once: its guard is false on entry
		if g, ok := fn.Pkg.Members["init$guard"].(*ssa.Global); ok {
			st.globals = map[*ssa.Global]Value{g: scalar(types.Typ[types.Bool], smt.False)}
		}
	}
	for _, p := range fn.Params {
		v := e.fresh("p_"+p.Name(), p.Type())
		e.assumeValid(st, v)
		st.regs[p] = v
		u.entryNames[p.Name()] = v
	}
	var captured []captVar
	for _, fv := range fn.FreeVars {
		var cell Value
		if a := allocOfFreeVar(fv); a != nil {
			cell = e.unknownCell(a)
		} else {
			c := e.ctx.Fresh("cell_"+fv.Name(), smt.Ref)
			st.assume(smt.Not(smt.Eq(c, e.null())))
			cell = Value{T: fv.Type(), L: []smt.Term{c}}
		}
		cell.T = fv.Type()
		st.regs[fv] = cell
		if a := allocOfFreeVar(fv); a != nil && addrPrivate(a, 0) {
			// a captured variable that only the enclosing function and its closures can reach
			if st.localCells == nil {
				st.localCells = map[string][]smt.Term{}
			}
			elem := a.Type().(*types.Pointer).Elem()
			for _, l := range e.leaves(elem) {
				k := objKeyPrefix(elem) + l.Path
				e.regKey(k, smt.Ref, l.Sort)
				st.localCells[k] = append(st.localCells[k], cell.L[0])
			}
		}
		captured = append(captured, captVar{fv.Name(), cell})
		u.entryNames[fv.Name()] = x.loadVia(st, x.ptrOf(cell))
	}
	// the receiver of a method is never nil when called through an interface; otherwise it is a precondition
	// preconditions
	env := x.newEnv(st, u.Spec)
	if u.Spec == nil {
		env.pkgPath = pkgPathOf(fn)
	}
	env.names = u.entryNames
	if u.Spec != nil {
		if len(u.Spec.Names) > 0 {
			// staleness check: names written in the contract must match the parameters
			var have []string
			for _, p := range fn.Params {
				have = append(have, p.Name())
			}
			want := u.Spec.Names
			if fn.Signature.Recv() != nil && len(want) == len(have)-1 {
				have = have[1:]
			}
			if strings.Join(want, ",") != strings.Join(have, ",") {
				specErr("contract of %s names parameters (%s) but the function has (%s)", u.Name, strings.Join(want, ", "), strings.Join(have, ", "))
			}
		}
		for _, cl := range u.Spec.Requires {
			st.assume(env.evalBool(cl.Expr))
		}
		for _, cl := range u.Spec.Assumes {
			st.assume(env.evalBool(cl.Expr))
			e.note("entry assumption of %s (not required of callers): %s", u.Name, cl.Text)
		}
	}
	u.entry = st.snapshot()
	res.ModelTerms = x.modelTerms(u)
	// replay inputs: let macros named in_* are evaluated in the entry state and reported with every counterexample of the
	// unit (the replay drivers rebuild the inputs of the real function from them)
	if u.Spec != nil {
		for _, l := range u.Spec.Lets {
			if !strings.HasPrefix(l.Name, "in_") {
				continue
			}
			func() {
				defer func() { recover() }()
				ienv := x.newEnv(u.entry, u.Spec)
				ienv.names = u.entryNames
				v := ienv.eval(l.Expr)
				if v.P == nil {
					for j, t := range v.L {
						res.ModelTerms = append(res.ModelTerms, ModelTerm{fmt.Sprintf("let %s#%d", l.Name, j), t.S, string(t.Sort), true})
					}
				}
			}()
		}
	}
	// vacuity: the precondition must be satisfiable
	e.obls = append(e.obls, &Obligation{Unit: u.Name, Name: u.Name + "/vacuity:requires", Kind: "vacuity", PC: st.pc[:len(st.pc):len(st.pc)], Goal: smt.False, Cover: true, Text: "precondition is satisfiable"})
	nret := 0
	fr := &Frame{fn: fn, isUnit: true, loops: x.loopInfoOf(fn)}
	fr.k = func(st *State, rets []Value) {
		nret++
		x.atReturn(st, u, rets, captured, nret)
	}
	x.run(st, fr, fn.Blocks[0], nil)
	// known-finding classes
	if len(classes) > 0 {
		var out []*Obligation
		for _, o := range e.obls {
			ks, ok := classes[o.Name]
			if !ok || o.Cover {
				out = append(out, o)
				continue
			}
			kenv := x.newEnv(u.entry, u.Spec)
			kenv.names = u.entryNames
			if u.Spec == nil {
				kenv.pkgPath = pkgPathOf(fn)
			}
			anyK := smt.False
			for _, k := range ks {
				if strings.TrimSpace(k) == "" {
					anyK = smt.True
					continue
				}
				ke, err := spec.ParseExpr(k)
				if err != nil {
					specErr("known-findings class %q: %v", k, err)
				}
				anyK = smt.Or(anyK, kenv.evalBool(ke))
			}
			if anyK.IsTrue() {
				// the whole obligation is a recorded finding: nothing remains to be proved under "not K"
				o2 := *o
				o2.Name = o.Name + "|known"
				o2.Kind = "known"
				out = append(out, &o2)
				continue
			}
			anyK = e.ctx.Name("K", anyK)
			o1 := *o
			o1.PC = append(append([]smt.Term(nil), o.PC...), smt.Not(anyK))
			o2 := *o
			o2.PC = append(append([]smt.Term(nil), o.PC...), anyK)
			o2.Name = o.Name + "|known"
			o2.Kind = "known"
			out = append(out, &o1, &o2)
		}
		e.obls = out
	}
	// write-site censuses attached to the unit
	if u.Spec != nil {
		for _, c := range u.Spec.Census {
			x.census(u, c)
		}
	}
	// call-site and loop clauses that matched nothing: their assertions were never checked, which is a failure of
	// the clause (the contract says the call / loop exists)
	if u.Spec != nil {
		for _, cs := range u.Spec.CallSites {
			if !e.sawCallSite[cs] {
				for i, cl := range cs.Asserts {
					detail := fmt.Sprintf("%s#%d:%s", shortKey(x.resolveCalleeName(u.Spec.Pkg, cs.Callee)), cs.Ordinal, clauseName(cl, i))
					e.obls = append(e.obls, &Obligation{Unit: u.Name, Name: u.Name + "/callsite:" + detail, Kind: "callsite", Tag: cl.Tag,
						Text: cl.Text + "   [no such call is reached in the current code]", Pos: cl.Pos.String(), PC: u.entry.pc, Goal: smt.False})
				}
			}
		}
		for _, cs := range u.Spec.Cuts {
			if !x.sawCut[cs] {
				res.StaleCallSites = append(res.StaleCallSites, fmt.Sprintf("cutafter %s#%d", cs.Callee, cs.Ordinal))
			}
		}
		for _, ls := range u.Spec.Loops {
			found := false
			for _, lp := range fr.loops.list {
				if ls.Label != "" && ls.Label == lp.label || ls.Label == "" && ls.Ordinal == lp.ordinal {
					found = true
				}
			}
			if !found {
				res.StaleCallSites = append(res.StaleCallSites, fmt.Sprintf("loop %d%s", ls.Ordinal, ls.Label))
			}
		}
	}
	return res
}

type captVar struct {
	name string
	cell Value
}

// modelTerms lists parameters and the entry values of fields reachable from them (two levels).
func (x *exec) modelTerms(u *Unit) []ModelTerm {
	e := x.e
	var out []ModelTerm
	seen := map[string]bool{}
	var addVal func(label string, v Value, depth int)
	addVal = func(label string, v Value, depth int) {
		if v.P != nil || v.T == nil {
			return
		}
		ls := e.leaves(v.T)
		for i, l := range ls {
			if i < len(v.L) && !seen[label+l.Path] {
				seen[label+l.Path] = true
				out = append(out, ModelTerm{label + l.Path, v.L[i].S, string(v.L[i].Sort), true})
			}
		}
		if depth <= 0 || len(out) > 400 {
			return
		}
		pt, ok := types.Unalias(v.T).Underlying().(*types.Pointer)
		if !ok {
			return
		}
		st, ok := types.Unalias(pt.Elem()).Underlying().(*types.Struct)
		if !ok {
			return
		}
		if n, isN := types.Unalias(pt.Elem()).(*types.Named); isN && n.Obj().Pkg() != nil && !e.w.Prog.InModule(n.Obj().Pkg().Path()) {
			return
		}
		for i := 0; i < st.NumFields(); i++ {
			f := st.Field(i)
			func() {
				defer func() { recover() }()
				p := &Ptr{Kind: PtrHeap, Base: v.one(), Root: pt.Elem(), Path: []int{i}}
				fv := e.loadRaw(u.entry, p)
				addVal(label+"."+f.Name(), fv, depth-1)
			}()
		}
	}
	names := sortedKeys(u.entryNames)
	for _, n := range names {
		addVal(n, u.entryNames[n], 2)
	}
	return out
}

// atReturn checks postconditions and the frame on one return path.
func (x *exec) atReturn(st *State, u *Unit, rets []Value, captured []captVar, nret int) {
	e := x.e
	fn := u.Fn
	// canary: this return path is reachable
	e.obls = append(e.obls, &Obligation{Unit: u.Name, Name: fmt.Sprintf("%s/cover:return", u.Name), Kind: "cover", PC: st.pc[:len(st.pc):len(st.pc)], Goal: smt.False, Cover: true, Text: "some return path is reachable (canary post:false must not be provable)"})
	if u.Spec == nil {
		return
	}
	env := x.newEnv(st, u.Spec)
	env.old = u.entry
	env.oldNames = u.entryNames
	for n, v := range u.entryNames {
		env.names[n] = v
	}
	for _, c := range captured {
		env.names[c.name] = x.loadVia(st, x.ptrOf(c.cell))
	}
	res := fn.Signature.Results()
	rn := resultNames(fn.Signature)
	for i := 0; i < res.Len() && i < len(rets); i++ {
		r := rets[i]
		r.T = res.At(i).Type()
		env.names[fmt.Sprintf("result%d", i)] = r
		if rn[i] != "" && rn[i] != "_" {
			env.names[rn[i]] = r
		}
	}
	if res.Len() == 1 && len(rets) == 1 {
		env.names["result"] = rets[0].withT(res.At(0).Type())
	}
	if res.Len() > 0 && isErrorType(res.At(res.Len()-1).Type()) {
		if _, clash := u.entryNames["err"]; !clash && rn[res.Len()-1] == "" {
			env.names["err"] = rets[res.Len()-1]
		}
	}
	// values worth seeing in a counterexample: results and the contract's let macros on this path
	e.pathModel = nil
	for i, r := range rets {
		if r.P == nil && len(r.L) > 0 && i < res.Len() {
			for j, l := range e.leaves(res.At(i).Type()) {
				if j < len(r.L) {
					e.pathModel = append(e.pathModel, ModelTerm{fmt.Sprintf("result%d%s", i, l.Path), r.L[j].S, "", false})
				}
			}
		}
	}
	for _, l := range u.Spec.Lets {
		func() {
			defer func() { recover() }()
			v := env.eval(l.Expr)
			if v.P == nil {
				for j, t := range v.L {
					e.pathModel = append(e.pathModel, ModelTerm{fmt.Sprintf("let %s#%d", l.Name, j), t.S, "", false})
				}
			}
		}()
	}
	defer func() { e.pathModel = nil }()
	for i, cl := range u.Spec.Ensures {
		g := x.guardedGoal(env, cl.Expr)
		e.obligation(st, "post", clauseName(cl, i), cl.Tag, cl.Text, cl.Pos.String(), g)
	}
	x.refinementCheck(st, u, rets)
	x.typeInvAtReturn(st, u)
	x.frameCheck(st, u, "")
}

// frameExcl is one location of the modifies clause, evaluated in the entry state.
type frameExcl struct {
	prefix string
	ref    smt.Term
	lo, hi *smt.Term // Mem ranges (absolute indices)
	whole  bool
	every  bool      // the field of every object (Every(x.f))
	cond   *smt.Term // "modifies loc if cond"
}

// frameExclusions evaluates the unit's modifies clause in the entry state.
func (x *exec) frameExclusions(u *Unit) []frameExcl {
	if u.excl != nil {
		return u.excl
	}
	e := x.e
	fs := u.Spec
	pre := x.newEnv(u.entry, fs)
	pre.names = u.entryNames
	ex := []frameExcl{}
	var add func(m spec.Expr)
	add = func(m spec.Expr) {
		switch m := m.(type) {
		case *spec.Cond:
			if m.B != nil {
				specErr("modifies: unsupported location %s", exprString(m))
			}
			c := e.ctx.Name("modif", pre.evalBool(m.C))
			n0 := len(ex)
			add(m.A)
			for i := n0; i < len(ex); i++ {
				cc := c
				ex[i].cond = &cc
			}
		case *spec.Sel:
			base := pre.eval(m.X)
			if strings.HasPrefix(m.Name, "$") {
				key, idx, _, _ := pre.ghostLoc(base, m.Name)
				ex = append(ex, frameExcl{prefix: key, ref: idx, whole: true})
				return
			}
			_ = base
			p := pre.lvalPtr(m)
			if p.Kind != PtrHeap {
				return
			}
			pre2, _ := e.followPath(p.Root, p.Path)
			ex = append(ex, frameExcl{prefix: objKeyPrefix(p.Root) + pre2, ref: p.Base, whole: true})
		case *spec.Call:
			id, _ := m.Fun.(*spec.Ident)
			if id != nil && id.Name == "Mem" {
				v := pre.eval(m.Args[0])
				sl, isSl := types.Unalias(v.T).Underlying().(*types.Slice)
				if !isSl {
					if len(v.L) == 1 && v.L[0].Sort == smt.Ref {
						ex = append(ex, frameExcl{prefix: memKeyPrefix(types.Universe.Lookup("byte").Type()), ref: v.L[0], whole: true})
						return
					}
					specErr("modifies: Mem() of non-slice")
				}
				ex = append(ex, frameExcl{prefix: memKeyPrefix(sl.Elem()), ref: v.L[slArr], whole: true})
				return
			}
			if id != nil && id.Name == "MapOf" {
				v := pre.eval(m.Args[0])
				mt, isMap := types.Unalias(v.T).Underlying().(*types.Map)
				if !isMap {
					specErr("modifies: MapOf() of non-map")
				}
				hk, _, _, vp := x.mapKeys(mt)
				ex = append(ex, frameExcl{prefix: hk, ref: v.one(), whole: true})
				ex = append(ex, frameExcl{prefix: vp, ref: v.one(), whole: true})
				return
			}
			if id != nil && id.Name == "Every" {
				sel, isSel := m.Args[0].(*spec.Sel)
				if !isSel {
					specErr("Every(x.f): a field selector is expected")
				}
				p := pre.lvalPtr(sel)
				pre2, _ := e.followPath(p.Root, p.Path)
				ex = append(ex, frameExcl{prefix: objKeyPrefix(p.Root) + pre2, every: true, whole: true, ref: e.null()})
				return
			}
			if id != nil && id.Name == "deref" {
				v := pre.eval(m.Args[0])
				p := x.ptrOf(v)
				if p.Kind == PtrHeap {
					pre2, _ := e.followPath(p.Root, p.Path)
					ex = append(ex, frameExcl{prefix: objKeyPrefix(p.Root) + pre2, ref: p.Base, whole: true})
				}
				return
			}
			specErr("modifies: unsupported location %s", exprString(m))
		case *spec.SliceEx:
			c := m.X.(*spec.Call)
			v := pre.eval(c.Args[0])
			sl := types.Unalias(v.T).Underlying().(*types.Slice)
			lo, hi := zero64, v.L[slLen]
			if m.Lo != nil {
				lo = pre.evalInt64(m.Lo)
			}
			if m.Hi != nil {
				hi = pre.evalInt64(m.Hi)
			}
			alo := e.ctx.Name("flo", smt.BVBin("bvadd", v.L[slOff], lo))
			ahi := e.ctx.Name("fhi", smt.BVBin("bvadd", v.L[slOff], hi))
			ex = append(ex, frameExcl{prefix: memKeyPrefix(sl.Elem()), ref: v.L[slArr], lo: &alo, hi: &ahi})
		case *spec.Ident:
			if mm, ok := pre.macros[m.Name]; ok {
				add(mm)
				return
			}
			specErr("modifies: unsupported location %s", exprString(m))
		}
	}
	for _, m := range fs.Modifies {
		add(m)
	}
	u.excl = ex
	return ex
}

func keyMatches(key, prefix string) bool {
	return key == prefix || strings.HasPrefix(key, prefix) && (key[len(prefix)] == '.' || key[len(prefix)] == '>')
}

// outsideFrame is the condition under which cell (r[,k]) of heap array key must keep its entry value.
func (x *exec) outsideFrame(u *Unit, key string, hk heapKey, r, k smt.Term) smt.Term {
	e := x.e
	conds := []smt.Term{}
	if hk.Idx == smt.Ref {
		conds = append(conds, smt.IntBin("<=", e.stamp(r), u.entry.clock))
	}
	isMem := strings.HasPrefix(key, "mem<")
	for _, ex := range x.frameExclusions(u) {
		if !keyMatches(key, ex.prefix) || ex.ref.Sort != hk.Idx {
			continue
		}
		var hit smt.Term
		if ex.every {
			hit = smt.True
		} else if ex.whole || !isMem {
			hit = smt.Eq(r, ex.ref)
		} else {
			hit = smt.And(smt.Eq(r, ex.ref), inRange(*ex.lo, k, *ex.hi))
		}
		if ex.cond != nil {
			hit = smt.And(*ex.cond, hit)
		}
		conds = append(conds, smt.Not(hit))
	}
	return smt.And(conds...)
}

// frameCheck proves that nothing outside the modifies clause changed (for objects that existed at entry).
func (x *exec) frameCheck(st *State, u *Unit, where string) {
	e := x.e
	fs := u.Spec
	if fs == nil || fs.ModAll || fs.Opts["noframe"] != "" {
		return
	}
	if st.gen != 0 {
		e.obligation(st, "frame", "havoc", "", "function calls code that may modify anything; its modifies clause is not '*'", fs.Pos.String(), smt.False)
		return
	}
	for _, key := range sortedKeys(st.heap) {
		cur := st.heap[key]
		hk := e.heapKeys[key]
		entryArr := e.heapArr(u.entry, key, hk.Idx, hk.Elem)
		if cur.S == entryArr.S {
			continue
		}
		if strings.HasSuffix(key, ".$held") && fs.Opts["locks"] == "" {
			continue
		}
		r := e.ctx.Fresh("fr_obj", hk.Idx)
		var goal smt.Term
		if strings.HasPrefix(key, "mem<") {
			k := e.ctx.Fresh("fr_idx", bv64)
			goal = smt.Implies(x.outsideFrame(u, key, hk, r, k), smt.Eq(smt.Select(smt.Select(cur, r), k), smt.Select(smt.Select(entryArr, r), k)))
		} else {
			goal = smt.Implies(x.outsideFrame(u, key, hk, r, smt.Term{}), smt.Eq(smt.Select(cur, r), smt.Select(entryArr, r)))
		}
		e.obligation(st, "frame", key, "", "only the locations named in modifies change: "+key+where, fs.Pos.String(), goal)
	}
}

// framedHavoc replaces heap array key by a fresh one that agrees with the entry state outside the unit's modifies clause.
func (x *exec) framedHavoc(st *State, u *Unit, key string) {
	e := x.e
	hk := e.heapKeys[key]
	entryArr := e.heapArr(u.entry, key, hk.Idx, hk.Elem)
	fresh := e.ctx.Fresh("Hl<"+key+">", smt.ArrayOf(hk.Idx, hk.Elem))
	st.heap[key] = fresh
	rv := smt.Sym("r!fh", hk.Idx)
	if strings.HasPrefix(key, "mem<") {
		kv := smt.Sym("k!fh", bv64)
		c := x.outsideFrame(u, key, hk, rv, kv)
		sel := fmt.Sprintf("(select (select %s r!fh) k!fh)", fresh.S)
		q := fmt.Sprintf("(forall ((r!fh %s) (k!fh (_ BitVec 64))) (! (=> %s (= %s (select (select %s r!fh) k!fh))) :pattern (%s)))", hk.Idx, c.S, sel, entryArr.S, sel)
		st.assume(smt.Term{S: q, Sort: smt.Bool})
		return
	}
	c := x.outsideFrame(u, key, hk, rv, smt.Term{})
	sel := fmt.Sprintf("(select %s r!fh)", fresh.S)
	q := fmt.Sprintf("(forall ((r!fh %s)) (! (=> %s (= %s (select %s r!fh))) :pattern (%s)))", hk.Idx, c.S, sel, entryArr.S, sel)
	st.assume(smt.Term{S: q, Sort: smt.Bool})
}

// finish renders the SMT header, adding the axioms that depend on what was used.
func (e *Engine) finish() string {
	// string literals are pairwise distinct
	if len(e.strLitOrder) > 1 {
		var names []string
		for _, s := range e.strLitOrder {
			names = append(names, e.strLits[s].S)
		}
		e.ctx.RawDecl("(assert (distinct " + strings.Join(names, " ") + "))")
	}
	// dyn(nil) = 0
	if len(e.typeTags) > 0 || len(e.implList) > 0 {
		e.ctx.Axiom(smt.Eq(e.dyn(e.nilIface()), smt.IntLit(0)))
	}
	// implements facts for the known dynamic types
	for _, it := range e.implList {
		f := smt.Sanitize("impl<" + typeKey(it) + ">")
		e.ctx.RawDecl(fmt.Sprintf("(assert (not (%s 0)))", f))
		iface, _ := types.Unalias(it).Underlying().(*types.Interface)
		for i, t := range e.typeTagTypes {
			if iface == nil {
				continue
			}
			if _, isTP := types.Unalias(t).(*types.TypeParam); isTP {
				continue
			}
			v := "false"
			if types.Implements(t, iface) {
				v = "true"
			}
			e.ctx.RawDecl(fmt.Sprintf("(assert (= (%s %d) %s))", f, i+1, v))
		}
	}
	return e.ctx.Header()
}


// refinementCheck proves, for a method of a type that a "represents" directive couples with an interface, the ensures
// clauses of the interface method's model contract, with every ghost field of the receiver read through its coupling
// expression (behavioural subtyping: what callers assume about the interface method holds for this implementation).
func (x *exec) refinementCheck(st *State, u *Unit, rets []Value) {
	e := x.e
	fn := u.Fn
	if fn.Signature.Recv() == nil || len(e.w.Reps) == 0 || len(fn.Params) == 0 {
		return
	}
	recvT := fn.Signature.Recv().Type()
	rk := typeKey(recvT)
	byIface := map[string]map[string]*spec.Represents{}
	for _, rp := range e.w.Reps {
		impl := strings.TrimSuffix(strings.TrimPrefix(rp.Impl, "("), ")")
		star := strings.HasPrefix(impl, "*")
		impl = strings.TrimPrefix(impl, "*")
		full := rp.Pkg + "." + impl
		if star {
			full = "*" + full
		}
		if full != rk {
			continue
		}
		if byIface[rp.Iface] == nil {
			byIface[rp.Iface] = map[string]*spec.Represents{}
		}
		byIface[rp.Iface][rp.Ghost] = rp
	}
	for iface, reps := range byIface {
		var pkg string
		for _, rp := range reps {
			pkg = rp.Pkg
		}
		key := "(" + pkg + "." + iface + ")." + fn.Name()
		fs := e.w.Contracts[key]
		if fs == nil || len(fs.Ensures) == 0 {
			continue
		}
		if fs.Opts["norefine"] != "" {
			e.note("model contract %s is not proved for %s (opt norefine): its clauses stay assumptions", shortKey(key), u.Name)
			continue
		}
		env := x.newEnv(st, fs)
		env.old = u.entry
		env.reps = reps
		names := map[string]Value{}
		// interface contract parameter names: this + declared names (or the method's own)
		pn := fs.Names
		recv := u.entryNames[fn.Params[0].Name()]
		names["this"] = recv
		for i, p := range fn.Params[1:] {
			n := p.Name()
			if i < len(pn) {
				n = pn[i]
			}
			names[n] = u.entryNames[p.Name()]
		}
		env.oldNames = names
		env.names = map[string]Value{}
		for k, v := range names {
			env.names[k] = v
		}
		res := fn.Signature.Results()
		for i := 0; i < res.Len() && i < len(rets); i++ {
			r := rets[i].withT(res.At(i).Type())
			env.names[fmt.Sprintf("result%d", i)] = r
		}
		if res.Len() == 1 && len(rets) == 1 {
			env.names["result"] = rets[0].withT(res.At(0).Type())
		}
		// frame of the model contract: every model field it does not list keeps its value
		if !fs.ModAll {
			listed := map[string]bool{}
			for _, m := range fs.Modifies {
				if sel, ok := m.(*spec.Sel); ok && strings.HasPrefix(sel.Name, "$") {
					listed[sel.Name] = true
				}
			}
			var gs []string
			for g := range reps {
				gs = append(gs, g)
			}
			sort.Strings(gs)
			for _, g := range gs {
				if listed[g] {
					continue
				}
				func() {
					defer func() { recover() }()
					post := env.ghostField(recv, g)
					oenv := env.child()
					oenv.st = u.entry
					pre := oenv.ghostField(recv, g)
					if len(post.L) == 1 && len(pre.L) == 1 {
						e.obligation(st, "refines", fmt.Sprintf("%s.%s:frame:%s", iface, fn.Name(), g), "",
							"the model contract of "+iface+"."+fn.Name()+" does not list "+g+" under modifies: its represents expression keeps its value", fs.Pos.String(), smt.Eq(post.L[0], pre.L[0]))
					}
				}()
			}
		}
		for i, cl := range fs.Ensures {
			func() {
				defer func() {
					if r := recover(); r != nil {
						if _, ok := r.(traceAtCallSite); ok {
							return
						}
						panic(r)
					}
				}()
				env.atCallSite = true // trace clauses of the interface contract are not part of what callers assume
				g := env.evalGoal(cl.Expr)
				e.obligation(st, "refines", fmt.Sprintf("%s.%s:%s", iface, fn.Name(), clauseName(cl, i)), cl.Tag,
					cl.Text+"   [model contract of "+iface+"."+fn.Name()+", ghost fields read through their represents expressions]", cl.Pos.String(), g)
			}()
		}
	}
}


// census checks a write-site census on the SSA of the whole module and records the outcome as one obligation per field.
func (x *exec) census(u *Unit, c *spec.Census) {
	e := x.e
	w := e.w
	if c.Shape != "" {
		fk := x.resolveCalleeName(u.Spec.Pkg, c.Shape)
		fn := w.funcByKey[fk]
		var missing []string
		if fn == nil || fn.Blocks == nil {
			missing = append(missing, "the function itself")
		} else {
			called := map[string]bool{}
			var walk func(f *ssa.Function)
			walk = func(f *ssa.Function) {
				for _, b := range f.Blocks {
					for _, ins := range b.Instrs {
						if ci, ok := ins.(ssa.CallInstruction); ok {
							called[staticKeyOf(ci.Common())] = true
						}
					}
				}
				for _, a := range f.AnonFuncs {
					walk(a)
				}
			}
			walk(fn)
			for _, g := range c.Writers {
				if !called[x.resolveCalleeName(u.Spec.Pkg, g)] {
					missing = append(missing, g)
				}
			}
		}
		text := c.Shape + " calls " + strings.Join(c.Writers, ", ")
		if len(missing) > 0 {
			text += "   [no longer calls: " + strings.Join(missing, ", ") + "]"
		}
		e.obls = append(e.obls, &Obligation{Unit: u.Name, Name: u.Name + "/shape:" + c.Shape, Kind: "census", Tag: c.Tag, Text: text, Pos: c.Pos.String(),
			PC: u.entry.pc[:len(u.entry.pc):len(u.entry.pc)], Goal: smt.BoolLit(len(missing) == 0)})
		return
	}
	allowed := map[string]bool{}
	for _, wr := range c.Writers {
		allowed[x.resolveCalleeName(u.Spec.Pkg, wr)] = true
	}
	root := func(fn *ssa.Function) string {
		for fn.Parent() != nil {
			fn = fn.Parent()
		}
		return FuncKey(fn)
	}
	for _, fld := range c.Fields {
		// (*T).f or T.f
		i := strings.LastIndex(fld, ".")
		if i < 0 {
			specErr("census: bad field %q", fld)
		}
		tn := strings.TrimSuffix(strings.TrimPrefix(strings.TrimPrefix(fld[:i], "("), "*"), ")")
		fname := fld[i+1:]
		var offenders []string
		for _, fn := range w.allFuncs {
			if fn.Blocks == nil || allowed[root(fn)] || allowed[FuncKey(fn)] {
				continue
			}
			hit := false
			for _, b := range fn.Blocks {
				for _, ins := range b.Instrs {
					var addr ssa.Value
					switch in := ins.(type) {
					case *ssa.Store:
						addr = in.Addr
					case ssa.CallInstruction:
						cc := in.Common()
						if f := cc.StaticCallee(); f != nil && len(cc.Args) > 0 && isIntrinsicKey(FuncKey(f)) {
							m := f.Name()
							if o := f.Origin(); o != nil {
								m = o.Name() // methods of generic atomics (atomic.Pointer[T]) are instances named after their type arguments
							}
							if i := strings.Index(m, "["); i > 0 {
								m = m[:i]
							}
							if m != "Load" && m != "RLock" && m != "RUnlock" {
								addr = cc.Args[0]
							}
						}
					}
					for addr != nil {
						fa, ok := addr.(*ssa.FieldAddr)
						if !ok {
							break
						}
						pt, _ := types.Unalias(fa.X.Type()).Underlying().(*types.Pointer)
						if pt != nil {
							if n, ok := types.Unalias(pt.Elem()).(*types.Named); ok && n.Obj().Name() == tn && n.Obj().Pkg() != nil && n.Obj().Pkg().Path() == u.Spec.Pkg {
								if st, ok := n.Underlying().(*types.Struct); ok && st.Field(fa.Field).Name() == fname {
									hit = true
								}
							}
						}
						addr = fa.X
					}
				}
			}
			if hit {
				offenders = append(offenders, shortKey(FuncKey(fn)))
			}
		}
		sort.Strings(offenders)
		text := fld + " is written only by " + strings.Join(c.Writers, ", ")
		if len(offenders) > 0 {
			text += "   [also written by: " + strings.Join(offenders, ", ") + "]"
		}
		e.obls = append(e.obls, &Obligation{Unit: u.Name, Name: u.Name + "/census:" + fld, Kind: "census", Tag: c.Tag, Text: text, Pos: c.Pos.String(),
			PC: u.entry.pc[:len(u.entry.pc):len(u.entry.pc)], Goal: smt.BoolLit(len(offenders) == 0)})
	}
}
