package vc

import (
	"fmt"
	"go/types"
	"strings"

	"golang.org/x/tools/go/ssa"
	"govc/internal/smt"
	"govc/internal/spec"
)

const maxInlineDepth = 4

// calleeInfo describes the target of a call.
type calleeInfo struct {
	key      string
	fn       *ssa.Function // static target with or without body (nil for invoke / unknown dynamic)
	method   *types.Func   // invoke
	sig      *types.Signature
	bindings []Value // closure bindings when fn is a closure
	dynamic  bool
}

func (x *exec) runDefers(st *State, fr *Frame, ds []deferred, k func(st *State)) {
	if len(ds) == 0 {
		k(st)
		return
	}
	d := ds[len(ds)-1]
	rest := ds[:len(ds)-1]
	x.callCommon(st, fr, d.call, &d.call.Call, d.fn, d.args, "defer", func(st *State, _ []Value) {
		x.runDefers(st, fr, rest, k)
	})
}

// call evaluates operands and dispatches.
func (x *exec) call(st *State, fr *Frame, ins ssa.Instruction, c *ssa.CallCommon, k cont) {
	var fnv Value
	if _, isB := c.Value.(*ssa.Builtin); !isB {
		fnv = x.val(st, fr, c.Value)
	}
	var args []Value
	for _, a := range c.Args {
		args = append(args, x.val(st, fr, a))
	}
	x.callCommon(st, fr, ins, c, fnv, args, "call", k)
}

func (x *exec) callCommon(st *State, fr *Frame, ins ssa.Instruction, c *ssa.CallCommon, fnv Value, args []Value, kind string, k cont) {
	e := x.e
	if b, ok := c.Value.(*ssa.Builtin); ok {
		x.lastAppendKeep = nil
		rets := x.builtin(st, fr, ins, b, c, args)
		if b.Name() == "append" && x.lastAppendKeep != nil && x.unit != nil && x.unit.Spec != nil && x.unit.Spec.Opts["splitappend"] != "" {
			// "opt splitappend": the in-place and the reallocating case of append are explored as separate paths (the merged
			// encoding keeps both behind if-then-else terms, which defeats quantifier instantiation in some proofs)
			keep := *x.lastAppendKeep
			st2 := st.clone()
			st.assume(keep)
			st2.assume(smt.Not(keep))
			k(st, rets)
			k(st2, rets)
			return
		}
		k(st, rets)
		return
	}
	ci := x.resolveCallee(st, fr, c, fnv)
	full := args
	if c.IsInvoke() {
		full = append([]Value{fnv}, args...)
		// nil interface receiver panics
		x.safe(st, ins, "nilrecv", smt.Not(smt.Eq(fnv.one(), e.nilIface())))
	} else if ci.dynamic && ci.fn == nil {
		declared := false
		if n := dynName(c.Value); n != "" && x.unit != nil && x.unit.Spec != nil && x.unit.Spec.DynCalls[n] != "" {
			declared = true // "dyncall": the registered callback is assumed to be a non-nil function without effect on verified state
		}
		if !declared {
			x.safe(st, ins, "nilfunc", smt.Not(smt.Eq(fnv.one(), e.null())))
		}
	}
	// package initialisers of imported packages only set their own package's variables
	if ci.fn != nil && ci.fn.Name() == "init" && ci.fn.Signature.Recv() == nil && ci.fn.Parent() == nil && ci.fn != x.unitFn && ci.fn.Synthetic != "" {
		k(st, nil)
		return
	}
	// intrinsics
	if ci.fn != nil {
		if isIntrinsicKey(ci.key) {
			x.callSiteAsserts(st, fr, ins, ci, full)
		}
		if rets, ok := x.intrinsic(st, fr, ins, ci, full); ok {
			// atomics and locks are recorded as quiet events so that contracts can count them
			x.recordEventVals(st, ins, ci.key, kind, full, paramNames(ci, nil))
			st.trace[len(st.trace)-1].Quiet = true
			st.trace[len(st.trace)-1].Rets = rets
			k(st, rets)
			return
		}
	}
	// call-site assertions of the unit's contract
	x.callSiteAsserts(st, fr, ins, ci, full)
	// "opt stopafter = callee#n": only the prefix of the function up to that call is explored (its obligations are
	// sound for every execution; what follows the call is not verified in this unit)
	if fr.isUnit && x.unit != nil && x.unit.Spec != nil {
		if sa := x.unit.Spec.Opts["stopafter"]; sa != "" {
			name, ord := sa, 1
			if i := strings.LastIndex(sa, "#"); i >= 0 {
				name = strings.TrimSpace(sa[:i])
				fmt.Sscanf(sa[i+1:], "%d", &ord)
			}
			if x.resolveCalleeName(x.unit.Spec.Pkg, name) == ci.key && x.callOrdinal(ins, ci.key) == ord {
				e.note("%s: exploration stops after %s (prefix verification)", x.unit.Name, sa)
				return
			}
		}
	}
	if cs := x.cutSpecFor(fr, ins, ci); cs != nil {
		k0 := k
		k = func(st *State, rets []Value) { x.cutAfter(st, fr, ins, cs, rets, k0) }
	}
	// contract?
	if fs := e.w.Contracts[ci.key]; fs != nil && !(fs.Inline && ci.fn != nil && ci.fn.Blocks != nil) {
		if d := fs.Opts["dispatch"]; d != "" && c.IsInvoke() {
			x.dispatch(st, fr, ins, c, ci, fs, d, full, kind, k)
			return
		}
		x.applyContract(st, fr, ins, ci, fs, full, kind, k)
		return
	}
	// inline?
	if ci.fn != nil && ci.fn.Blocks != nil && e.w.Prog.InModule(pkgPathOf(ci.fn)) && fr.depth < maxInlineDepth && !fr.onStack(ci.fn) {
		x.inline(st, fr, ins, ci, full, k)
		return
	}
	// dynamic call declared pure / noeffect by the unit's contract
	if ci.dynamic && x.unit != nil && x.unit.Spec != nil && fr.isUnit {
		if n := dynName(c.Value); n != "" {
			if mode := x.unit.Spec.DynCalls[n]; mode != "" {
				e.trustedUsed["dyncall "+n+" ("+mode+") in "+x.unit.Name] = true
				var rets []Value
				res := ci.sig.Results()
				for i := 0; i < res.Len(); i++ {
					r := e.fresh("dyn_"+n, res.At(i).Type())
					e.assumeValid(st, r)
					rets = append(rets, r)
				}
				x.recordEventVals(st, ins, "var:"+n, kind, full, nil)
				st.trace[len(st.trace)-1].Rets = rets
				k(st, rets)
				return
			}
		}
	}
	// havoc
	x.recordEventVals(st, ins, ci.key, kind, full, nil)
	e.note("havoc call: %s (no contract, not inlinable) in %s", shortKey(ci.key), shortKey(FuncKey(ins.Parent())))
	x.e.havocAll(st)
	var rets []Value
	res := ci.sig.Results()
	for i := 0; i < res.Len(); i++ {
		r := e.fresh("hv_"+lastName(ci.key), res.At(i).Type())
		e.assumeValid(st, r)
		rets = append(rets, r)
	}
	if ev := st.trace; len(ev) > 0 && ev[len(ev)-1].Site == ins {
		ev[len(ev)-1].Rets = rets
	}
	k(st, rets)
}

func lastName(key string) string {
	if i := strings.LastIndexAny(key, "./)"); i >= 0 {
		return key[i+1:]
	}
	return key
}

func pkgPathOf(f *ssa.Function) string {
	if o := f.Origin(); o != nil {
		f = o
	}
	for f.Parent() != nil {
		f = f.Parent()
	}
	if f.Pkg != nil {
		return f.Pkg.Pkg.Path()
	}
	if f.Object() != nil && f.Object().Pkg() != nil {
		return f.Object().Pkg().Path()
	}
	return ""
}

func (x *exec) resolveCallee(st *State, fr *Frame, c *ssa.CallCommon, fnv Value) calleeInfo {
	if c.IsInvoke() {
		return calleeInfo{key: MethodKey(c.Method), method: c.Method, sig: c.Method.Type().(*types.Signature)}
	}
	if f := c.StaticCallee(); f != nil {
		ci := calleeInfo{key: FuncKey(f), fn: f, sig: f.Signature}
		if mc, ok := c.Value.(*ssa.MakeClosure); ok {
			if info := x.closures[x.val(st, fr, mc).one().S]; info != nil {
				ci.bindings = info.bindings
			}
		}
		// an instantiated generic function has no body of its own in the original package: use the origin's
		return ci
	}
	sig := types.Unalias(c.Value.Type()).Underlying().(*types.Signature)
	// closure created on this path?
	if len(fnv.L) == 1 {
		if info := x.closures[fnv.L[0].S]; info != nil {
			return calleeInfo{key: FuncKey(info.fn), fn: info.fn, sig: info.fn.Signature, bindings: info.bindings}
		}
	}
	// variable assigned exactly once with a function literal?
	if fn, binds := x.resolveFuncVar(st, fr, c.Value); fn != nil {
		return calleeInfo{key: FuncKey(fn), fn: fn, sig: fn.Signature, bindings: binds}
	}
	return calleeInfo{key: "dynamic:" + typeKey(sig), sig: sig, dynamic: true}
}

// dynName names the function-typed variable or struct field a called value is loaded from ("" when it is neither).
func dynName(v ssa.Value) string {
	if a := varOf(v); a != nil {
		return a.Comment
	}
	if u, ok := v.(*ssa.UnOp); ok {
		if fa, ok := u.X.(*ssa.FieldAddr); ok {
			if pt, ok := types.Unalias(fa.X.Type()).Underlying().(*types.Pointer); ok {
				if st, ok := types.Unalias(pt.Elem()).Underlying().(*types.Struct); ok {
					return st.Field(fa.Field).Name()
				}
			}
		}
	}
	return ""
}

// varOf identifies the source variable (an Alloc of some enclosing function) a value is loaded from.
func varOf(v ssa.Value) *ssa.Alloc {
	u, ok := v.(*ssa.UnOp)
	if !ok {
		return nil
	}
	switch a := u.X.(type) {
	case *ssa.Alloc:
		return a
	case *ssa.FreeVar:
		return allocOfFreeVar(a)
	}
	return nil
}

// allocOfFreeVar maps a free variable to the Alloc of the enclosing function that it captures.
func allocOfFreeVar(fv *ssa.FreeVar) *ssa.Alloc {
	fn := fv.Parent()
	idx := -1
	for i, f := range fn.FreeVars {
		if f == fv {
			idx = i
		}
	}
	parent := fn.Parent()
	if parent == nil || idx < 0 {
		return nil
	}
	for _, b := range parent.Blocks {
		for _, ins := range b.Instrs {
			if mc, ok := ins.(*ssa.MakeClosure); ok && mc.Fn == ssa.Value(fn) {
				switch bnd := mc.Bindings[idx].(type) {
				case *ssa.Alloc:
					return bnd
				case *ssa.FreeVar:
					return allocOfFreeVar(bnd)
				}
			}
		}
	}
	return nil
}

// storesTo lists the values stored to variable a anywhere in its function and nested closures.
func storesTo(a *ssa.Alloc) []ssa.Value {
	var out []ssa.Value
	var walk func(f *ssa.Function)
	walk = func(f *ssa.Function) {
		for _, b := range f.Blocks {
			for _, ins := range b.Instrs {
				st, ok := ins.(*ssa.Store)
				if !ok {
					continue
				}
				switch t := st.Addr.(type) {
				case *ssa.Alloc:
					if t == a {
						out = append(out, st.Val)
					}
				case *ssa.FreeVar:
					if allocOfFreeVar(t) == a {
						out = append(out, st.Val)
					}
				}
			}
		}
		for _, c := range f.AnonFuncs {
			walk(c)
		}
	}
	walk(a.Parent())
	return out
}

// cellOf returns the pointer to the heap cell of variable a as seen from the current frame.
func (x *exec) cellOf(st *State, fr *Frame, a *ssa.Alloc) Value {
	for f := fr; f != nil; f = f.parent {
		if f.fn == a.Parent() {
			if v, ok := st.regs[a]; ok {
				return v
			}
		}
		for _, fv := range f.fn.FreeVars {
			if allocOfFreeVar(fv) == a {
				if v, ok := st.regs[fv]; ok {
					return v
				}
			}
		}
	}
	return x.e.unknownCell(a)
}

// unknownCell is the (memoised) symbolic cell of a captured variable the unit does not itself capture.
func (e *Engine) unknownCell(a *ssa.Alloc) Value {
	if v, ok := e.cells[a]; ok {
		return v
	}
	c := e.ctx.Fresh("cell_"+strings.NewReplacer(" ", "_", "$", "_").Replace(a.Comment), smt.Ref)
	e.ctx.Axiom(smt.Not(smt.Eq(c, e.null())))
	e.ctx.Axiom(smt.IntBin("<=", e.stamp(c), smt.IntLit(0)))
	for _, o := range e.cellList {
		e.ctx.Axiom(smt.Not(smt.Eq(c, o)))
	}
	e.cellList = append(e.cellList, c)
	v := Value{T: a.Type(), L: []smt.Term{c}}
	e.cells[a] = v
	return v
}

func (x *exec) resolveFuncVar(st *State, fr *Frame, v ssa.Value) (*ssa.Function, []Value) {
	a := varOf(v)
	if a == nil {
		return nil, nil
	}
	stores := storesTo(a)
	if len(stores) != 1 {
		return nil, nil
	}
	var fn *ssa.Function
	var mc *ssa.MakeClosure
	sv := stores[0]
	for {
		if ct, ok := sv.(*ssa.ChangeType); ok {
			sv = ct.X
			continue
		}
		break
	}
	switch s := sv.(type) {
	case *ssa.MakeClosure:
		fn = s.Fn.(*ssa.Function)
		mc = s
	case *ssa.Function:
		return s, nil
	default:
		return nil, nil
	}
	var binds []Value
	for _, b := range mc.Bindings {
		switch bb := b.(type) {
		case *ssa.Alloc:
			binds = append(binds, x.cellOf(st, fr, bb))
		case *ssa.FreeVar:
			if al := allocOfFreeVar(bb); al != nil {
				binds = append(binds, x.cellOf(st, fr, al))
			} else {
				return nil, nil
			}
		default:
			return nil, nil
		}
	}
	return fn, binds
}

// dispatch devirtualises an interface call over the dynamic types listed in the contract ("opt dispatch = *T1, *T2");
// that the list is complete is an obligation.
func (x *exec) dispatch(st *State, fr *Frame, ins ssa.Instruction, c *ssa.CallCommon, ci calleeInfo, fs *spec.FuncSpec, list string, args []Value, kind string, k cont) {
	e := x.e
	recv := args[0].one()
	env := x.newEnv(st, fs)
	var conds []smt.Term
	for _, tn := range strings.Split(list, ",") {
		tn = strings.TrimSpace(tn)
		stars := 0
		for strings.HasPrefix(tn, "*") {
			stars++
			tn = tn[1:]
		}
		te := &spec.TypeExpr{Stars: stars, Name: tn}
		if i := strings.LastIndex(tn, "."); i >= 0 {
			te.Pkg, te.Name = tn[:i], tn[i+1:]
		}
		t := env.resolveType(te)
		if it, ok := types.Unalias(c.Value.Type()).Underlying().(*types.Interface); ok && !types.Implements(t, it) {
			// the static type of the receiver rules this dynamic type out
			continue
		}
		is := e.ctx.Name("disp", smt.Eq(e.dyn(recv), e.typeTag(t)))
		conds = append(conds, is)
		sel := e.w.Prog.SSA.MethodSets.MethodSet(t).Lookup(c.Method.Pkg(), c.Method.Name())
		if sel == nil {
			specErr("dispatch: %v has no method %s", t, c.Method.Name())
		}
		fn := e.w.Prog.SSA.MethodValue(sel)
		if fn == nil {
			specErr("dispatch: no function for %v.%s", t, c.Method.Name())
		}
		st2 := st.clone()
		st2.assume(is)
		cv := e.unbox(recv, t)
		st2.assume(smt.Eq(recv, e.box(cv)))
		e.assumeValid(st2, cv)
		x.countPath()
		nargs := append([]Value{cv}, args[1:]...)
		nci := calleeInfo{key: FuncKey(fn), fn: fn, sig: fn.Signature}
		if rets, ok := x.intrinsic(st2, fr, ins, nci, nargs); ok {
			k(st2, rets)
			continue
		}
		x.callSiteAsserts(st2, fr, ins, nci, nargs)
		if cfs := e.w.Contracts[nci.key]; cfs != nil && !(cfs.Inline && fn.Blocks != nil) {
			x.applyContract(st2, fr, ins, nci, cfs, nargs, kind, k)
		} else if fn.Blocks != nil && fr.depth < maxInlineDepth && !fr.onStack(fn) {
			x.inline(st2, fr, ins, nci, nargs, k)
		} else {
			specErr("dispatch target %s has neither contract nor inlinable body", nci.key)
		}
	}
	st.assume(smt.Not(smt.Or(conds...)))
	if fs.Opts["dispatch_else"] == "contract" {
		x.applyContract(st, fr, ins, ci, fs, args, kind, k)
		return
	}
	e.obligation(st, "dispatch", fmt.Sprintf("%s#%d", shortKey(ci.key), x.callOrdinal(ins, ci.key)), "C09.nopanic",
		"the receiver's dynamic type is one of: "+list, fs.Pos.String(), smt.False)
}

// inline executes the callee's body in the current path.
func (x *exec) inline(st *State, fr *Frame, ins ssa.Instruction, ci calleeInfo, args []Value, k cont) {
	fn := ci.fn
	x.recordEventVals(st, ins, ci.key, "inline", args, paramNames(ci, nil))
	st.trace[len(st.trace)-1].Quiet = true
	nf := &Frame{fn: fn, depth: fr.depth + 1, parent: fr, site: ins, loops: x.loopInfoOf(fn)}
	seq := len(st.trace) - 1
	nf.k = func(st *State, rets []Value) {
		// the results of an inlined call are known on this path: record them on a copy of the event (states that split
		// inside the callee share the event object)
		if seq < len(st.trace) && st.trace[seq].Site == ins && st.trace[seq].Kind == "inline" {
			cp := *st.trace[seq]
			cp.Rets = rets
			st.trace[seq] = &cp
		}
		k(st, rets)
	}
	for i, p := range fn.Params {
		if i >= len(args) {
			unsupported("arity mismatch inlining %s", ci.key)
		}
		v := args[i]
		v.T = p.Type()
		st.regs[p] = v
	}
	if len(fn.FreeVars) > 0 {
		if len(ci.bindings) != len(fn.FreeVars) {
			unsupported("closure %s called without known bindings", ci.key)
		}
		for i, fv := range fn.FreeVars {
			st.regs[fv] = ci.bindings[i]
		}
	}
	if fn.Recover != nil {
		x.e.note("recover block of %s ignored", shortKey(ci.key))
	}
	x.run(st, nf, fn.Blocks[0], nil)
}

// recordEvent records a go statement.
func (x *exec) recordEvent(st *State, fr *Frame, g *ssa.Go, kind string) {
	var fnv Value
	if _, isB := g.Call.Value.(*ssa.Builtin); !isB {
		fnv = x.val(st, fr, g.Call.Value)
	}
	var args []Value
	for _, a := range g.Call.Args {
		args = append(args, x.val(st, fr, a))
	}
	ci := x.resolveCallee(st, fr, &g.Call, fnv)
	if g.Call.IsInvoke() {
		args = append([]Value{fnv}, args...)
	}
	x.callSiteAsserts(st, fr, g, ci, args)
	// the spawned function starts in (at best) the state of the spawn: its preconditions are obligations here
	if fs := x.e.w.Contracts[ci.key]; fs != nil && len(fs.Requires) > 0 && fr.isUnit {
		if fs.External || fs.Trusted != "" {
			x.e.trustedUsed[fs.Key] = true
		} else {
			x.e.contractsUsed[fs.Key] = true
		}
		env := x.newEnv(st, fs)
		for i, n := range paramNames(ci, fs) {
			if i < len(args) {
				env.names[n] = args[i]
			}
		}
		if ci.fn != nil && len(ci.fn.FreeVars) > 0 && len(ci.bindings) == len(ci.fn.FreeVars) {
			for i, fv := range ci.fn.FreeVars {
				if _, clash := env.names[fv.Name()]; !clash {
					cell := ci.bindings[i]
					cell.T = fv.Type()
					env.names[fv.Name()] = x.loadVia(st, x.ptrOf(cell))
				}
			}
		}
		ord := x.callOrdinal(g, ci.key)
		for i, cl := range fs.Requires {
			goal := env.evalGoal(cl.Expr)
			x.e.obligation(st, "call-pre", fmt.Sprintf("go:%s#%d:%s", shortKey(ci.key), ord, clauseName(cl, i)), cl.Tag, cl.Text, cl.Pos.String(), goal)
		}
	}
	x.recordEventVals(st, g, ci.key, "go", args, paramNames(ci, x.e.w.Contracts[ci.key]))
	x.e.note("go statement in %s: spawned call %s recorded, body not executed here", shortKey(FuncKey(g.Parent())), shortKey(ci.key))
}

func (x *exec) recordEventVals(st *State, ins ssa.Instruction, key, kind string, args []Value, names []string) {
	ev := &Event{Key: key, Kind: kind, Args: args, Pre: st.snapshot(), Seq: len(st.trace), Site: ins, Names: names}
	st.trace = append(st.trace, ev)
}

// paramNames returns the names of receiver+parameters of the callee.
func paramNames(ci calleeInfo, fs *spec.FuncSpec) []string {
	var names []string
	if ci.fn != nil && len(ci.fn.Params) > 0 {
		for _, p := range ci.fn.Params {
			names = append(names, p.Name())
		}
		if fs != nil && len(fs.Names) == len(names) {
			return fs.Names
		}
		if fs != nil && len(fs.Names) > 0 && len(fs.Names) == len(names)-1 && ci.fn.Signature.Recv() != nil {
			return append([]string{names[0]}, fs.Names...)
		}
		return names
	}
	sig := ci.sig
	if sig.Recv() != nil || ci.method != nil {
		names = append(names, "this")
	}
	for i := 0; i < sig.Params().Len(); i++ {
		n := sig.Params().At(i).Name()
		if n == "" || n == "_" {
			n = fmt.Sprintf("arg%d", i)
		}
		names = append(names, n)
	}
	if fs != nil && len(fs.Names) > 0 {
		if len(fs.Names) == len(names) {
			return fs.Names
		}
		if len(fs.Names) == len(names)-1 {
			return append([]string{names[0]}, fs.Names...)
		}
	}
	return names
}

func resultNames(sig *types.Signature) []string {
	var out []string
	for i := 0; i < sig.Results().Len(); i++ {
		out = append(out, sig.Results().At(i).Name())
	}
	return out
}

// applyContract uses the callee's contract at a call site.
func (x *exec) applyContract(st *State, fr *Frame, ins ssa.Instruction, ci calleeInfo, fs *spec.FuncSpec, args []Value, kind string, k cont) {
	e := x.e
	if fs.External || fs.Trusted != "" {
		e.trustedUsed[fs.Key] = true
	} else {
		e.contractsUsed[fs.Key] = true
	}
	names := paramNames(ci, fs)
	env := x.newEnv(st, fs)
	for i, n := range names {
		if i < len(args) {
			env.names[n] = args[i]
		}
	}
	// a closure's contract may name the variables it captures: bound to the cells passed at this call
	closureNames := func(target map[string]Value, at *State) {
		if ci.fn == nil || len(ci.fn.FreeVars) == 0 || len(ci.bindings) != len(ci.fn.FreeVars) {
			return
		}
		for i, fv := range ci.fn.FreeVars {
			if _, clash := target[fv.Name()]; clash {
				continue
			}
			cell := ci.bindings[i]
			cell.T = fv.Type()
			target[fv.Name()] = x.loadVia(at, x.ptrOf(cell))
		}
	}
	closureNames(env.names, st)
	ord := x.callOrdinal(ins, ci.key)
	// preconditions
	for i, cl := range fs.Requires {
		g := env.evalGoal(cl.Expr)
		detail := fmt.Sprintf("%s#%d:%s", shortKey(ci.key), ord, clauseName(cl, i))
		if fr.fn != x.unitFn {
			detail = "@" + shortKey(FuncKey(fr.fn)) + ":" + detail
		}
		e.obligation(st, "call-pre", detail, cl.Tag, cl.Text, cl.Pos.String(), g)
		st.assume(g)
	}
	pre := st.snapshot()
	preFacts := len(pre.pc)
	x.recordEventVals(st, ins, ci.key, kind, args, names)
	st.trace[len(st.trace)-1].Quiet = fs.Pure || fs.Silent
	// frame
	if !fs.Pure && !fs.NoEffect {
		if fs.ModAll {
			e.havocAll(st)
		} else {
			penv := x.newEnv(pre, fs)
			penv.names = env.names
			for _, m := range fs.Modifies {
				penv.havocLocation(st, m)
			}
		}
	}
	// "opt havoc_pointee = v": the callee writes the variable its argument v points to (through an interface box or
	// directly) and nothing else of the verified state (decoders, scanners)
	if hp := fs.Opts["havoc_pointee"]; hp != "" {
		done := false
		if call, ok := ins.(ssa.CallInstruction); ok {
			c := call.Common()
			for i, n := range names {
				if n != hp {
					continue
				}
				ai := i
				if c.IsInvoke() || (ci.fn == nil && ci.method != nil) {
					ai = i - 1
				}
				if ci.fn != nil && ci.fn.Signature.Recv() != nil && !c.IsInvoke() {
					ai = i // static method call: receiver is Args[0]
				}
				if ai < 0 || ai >= len(c.Args) {
					continue
				}
				var pv ssa.Value = c.Args[ai]
				if mi, ok := pv.(*ssa.MakeInterface); ok {
					pv = mi.X
				}
				if pt, ok := types.Unalias(pv.Type()).Underlying().(*types.Pointer); ok {
					p := x.ptrOf(x.val(st, fr, pv))
					nv := e.fresh("decoded", pt.Elem())
					e.assumeValid(st, nv)
					x.storeVia(st, p, nv)
					done = true
				}
			}
		}
		if !done {
			e.havocAll(st)
		}
	}
	// the callee may allocate: the allocation clock moves on
	if !fs.NoEffect {
		nc := e.ctx.Fresh("clk", smt.Int)
		st.assume(smt.IntBin(">=", nc, st.clock))
		st.clock = nc
	}
	// results
	var rets []Value
	res := ci.sig.Results()
	post := x.newEnv(st, fs)
	post.old = pre
	post.oldNames = env.names
	closureNames(post.names, st)
	for n, v := range env.names {
		if _, have := post.names[n]; !have {
			post.names[n] = v
		}
	}
	rn := resultNames(ci.sig)
	for i := 0; i < res.Len(); i++ {
		var r Value
		if fs.Opts["stable"] != "" && res.Len() == 1 {
			r = x.stableCall(st, ci, args)
		} else if fs.Fresh && i == 0 && isPointerShaped(res.At(i).Type()) {
			r = Value{T: res.At(i).Type(), L: []smt.Term{e.newRef(st, "fresh_"+lastName(ci.key))}}
		} else {
			r = e.fresh("r_"+lastName(ci.key), res.At(i).Type())
		}
		e.assumeValid(st, r)
		rets = append(rets, r)
		post.names[fmt.Sprintf("result%d", i)] = r
		if rn[i] != "" && rn[i] != "_" {
			if _, clash := post.names[rn[i]]; !clash {
				post.names[rn[i]] = r
			}
		}
	}
	if res.Len() == 1 {
		post.names["result"] = rets[0]
	}
	if res.Len() > 0 && isErrorType(res.At(res.Len()-1).Type()) {
		if _, clash := post.names["err"]; !clash {
			post.names["err"] = rets[res.Len()-1]
		}
	}
	post.atCallSite = true
	for _, cl := range fs.Ensures {
		// clauses about the callee's own call trace (calls, emitted, arg, ...) say nothing to the caller
		func() {
			defer func() {
				if r := recover(); r != nil {
					if _, ok := r.(traceAtCallSite); ok {
						return
					}
					panic(r)
				}
			}()
			st.assume(post.evalBool(cl.Expr))
		}()
	}
	if ev := st.trace; len(ev) > 0 && ev[len(ev)-1].Site == ins {
		ev[len(ev)-1].Rets = rets
	}
	// facts learnt about values of the pre-state while the contract was evaluated (allocation stamps, shapes of loaded
	// values) hold on this path
	for _, f := range pre.pc[preFacts:] {
		st.assume(f)
	}
	x.reenterHavoc(st, fr, ins, ci)
	k(st, rets)
}

// reenterHavoc applies the unit's rely clauses ("reenter f modifies locs") after a direct call of the unit to f: code
// reached through f (listeners, callbacks, a goroutine the call wakes) may have written the locations.
func (x *exec) reenterHavoc(st *State, fr *Frame, ins ssa.Instruction, ci calleeInfo) {
	if x.unit == nil || x.unit.Spec == nil || len(x.unit.Spec.Reenter) == 0 || !fr.isUnit {
		return
	}
	skey := ""
	if c, ok := ins.(ssa.CallInstruction); ok {
		skey = staticKeyOf(c.Common())
	}
	for _, re := range x.unit.Spec.Reenter {
		hit := false
		for _, c := range re.Callees {
			if c == "*" {
				// another goroutine may write the locations at any time: forgotten after every call that is an observable step
				// of the unit (not after logging and pure getters, so that adding or removing such a call changes nothing)
				if fs := x.e.w.Contracts[ci.key]; fs == nil || !(fs.Pure || fs.Silent) {
					hit = true
				}
				continue
			}
			want := x.resolveCalleeName(x.unit.Spec.Pkg, c)
			if want == ci.key || want == skey {
				hit = true
			}
		}
		if !hit {
			continue
		}
		env := x.unitEnv(st, fr)
		for _, m := range re.Mods {
			env.havocLocation(st, m)
		}
		if re.Keeping != nil {
			kenv := x.unitEnv(st, fr)
			st.assume(kenv.evalBool(re.Keeping.Expr))
		}
		x.e.note("rely clause of %s: calls to %s may run code that writes %d listed location(s); they are forgotten after the call", x.unit.Name, shortKey(ci.key), len(re.Mods))
	}
}

func isErrorType(t types.Type) bool {
	n, ok := types.Unalias(t).(*types.Named)
	return ok && n.Obj().Pkg() == nil && n.Obj().Name() == "error"
}

func clauseName(cl *spec.Clause, i int) string {
	if cl.Tag != "" {
		return cl.Tag
	}
	return fmt.Sprintf("r%d", i+1)
}

// callOrdinal returns the 1-based ordinal of this call among the calls of its function to the same callee key, in source order.
func (x *exec) callOrdinal(ins ssa.Instruction, key string) int {
	fn := ins.Parent()
	m := x.callOrd[fn]
	if m == nil {
		m = map[ssa.Instruction]int{}
		var list []ssa.Instruction
		for _, b := range fn.Blocks {
			for _, i := range b.Instrs {
				if _, ok := i.(ssa.CallInstruction); ok {
					list = append(list, i)
				}
			}
		}
		sortByPos(list)
		counts := map[string]int{}
		for _, i := range list {
			c := i.(ssa.CallInstruction).Common()
			k := staticKeyOf(c)
			counts[k]++
			m[i] = counts[k]
		}
		x.callOrd[fn] = m
	}
	return m[ins]
}

// staticKeyOf names the callee as far as it is known syntactically (used for ordinals only).
func staticKeyOf(c *ssa.CallCommon) string {
	if c.IsInvoke() {
		return MethodKey(c.Method)
	}
	if f := c.StaticCallee(); f != nil {
		return FuncKey(f)
	}
	if b, ok := c.Value.(*ssa.Builtin); ok {
		return "builtin:" + b.Name()
	}
	if n := dynName(c.Value); n != "" {
		return "var:" + n
	}
	return "dynamic"
}
