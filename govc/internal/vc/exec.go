package vc

import (
	"fmt"
	"time"
	"go/constant"
	"go/token"
	"go/types"
	"strings"

	"golang.org/x/tools/go/ssa"
	"govc/internal/smt"
	"govc/internal/spec"
)

type cont func(st *State, rets []Value)

type deferred struct {
	call *ssa.Defer
	fn   Value
	args []Value
}

// Frame is one activation (the unit itself or an inlined callee).
type Frame struct {
	fn     *ssa.Function
	depth  int
	defers []deferred
	isUnit bool
	k      cont
	loops  *loopInfo
	parent *Frame
	site   ssa.Instruction // call site in the parent
}

func (fr *Frame) onStack(f *ssa.Function) bool {
	for x := fr; x != nil; x = x.parent {
		if x.fn == f {
			return true
		}
	}
	return false
}

// obligation records a proof obligation for the current path.
func (e *Engine) obligation(st *State, kind, detail, tag, text, pos string, goal smt.Term) {
	if e.mute > 0 {
		return
	}
	if goal.IsTrue() {
		e.trivial++
		// still register the name so that the census is stable
	}
	name := e.unitName + "/" + kind + ":" + detail
	e.obls = append(e.obls, &Obligation{
		Unit: e.unitName, Name: name, Kind: kind, Tag: tag, Text: text, Pos: pos,
		PC: st.pc[:len(st.pc):len(st.pc)], Goal: goal, ModelTerms: e.pathModel,
	})
}

// safe records an implicit-panic obligation and then assumes it.
func (x *exec) safe(st *State, ins ssa.Instruction, what string, goal smt.Term) {
	if goal.IsTrue() {
		return
	}
	detail := what + x.siteName(ins)
	x.e.obligation(st, "safe", detail, "C09.nopanic", what, posString(x.e.w.fset(), ins.Pos()), goal)
	st.assume(goal)
}

// siteName renders a stable (line-free) name for an instruction: the source text of the expression when short, plus an ordinal.
func (x *exec) siteName(ins ssa.Instruction) string {
	fn := ins.Parent()
	key := FuncKey(fn)
	m := x.siteOrd[key]
	if m == nil {
		m = map[ssa.Instruction]int{}
		n := 0
		for _, b := range fn.Blocks {
			for _, i := range b.Instrs {
				n++
				m[i] = n
			}
		}
		// ordinals per kind are more stable than global instruction numbers: recompute per (kind)
		kinds := map[string]int{}
		var list []ssa.Instruction
		for _, b := range fn.Blocks {
			list = append(list, b.Instrs...)
		}
		sortByPos(list)
		for _, i := range list {
			k := fmt.Sprintf("%T", i)
			kinds[k]++
			m[i] = kinds[k]
		}
		x.siteOrd[key] = m
	}
	prefix := ""
	if fn != x.unitFn {
		prefix = "@" + shortKey(key)
	}
	return fmt.Sprintf("%s#%s%d", prefix, instrKind(ins), m[ins])
}

func instrKind(i ssa.Instruction) string {
	s := fmt.Sprintf("%T", i)
	return strings.ToLower(strings.TrimPrefix(s, "*ssa."))
}

func shortKey(k string) string {
	// drop module path noise
	if i := strings.LastIndex(k, "/"); i >= 0 {
		head := k[:i]
		pre := ""
		if j := strings.LastIndexAny(head, "(*"); j >= 0 {
			pre = head[:j+1]
		}
		return pre + k[i+1:]
	}
	return k
}

func sortByPos(list []ssa.Instruction) {
	// stable insertion sort by position (lists are small)
	for i := 1; i < len(list); i++ {
		for j := i; j > 0 && list[j].Pos() < list[j-1].Pos() && list[j].Pos().IsValid() && list[j-1].Pos().IsValid(); j-- {
			list[j], list[j-1] = list[j-1], list[j]
		}
	}
}

type exec struct {
	e       *Engine
	unitFn  *ssa.Function
	unit    *Unit
	siteOrd map[string]map[ssa.Instruction]int
	loopsOf map[*ssa.Function]*loopInfo
	callOrd map[*ssa.Function]map[ssa.Instruction]int
	closures map[string]*closureInfo // by Ref term
	calleeNameCache map[string]string
	lastAppendKeep  *smt.Term // set by appendOp: the condition under which the last append stayed in place
	sawCut          map[*spec.CallSite]bool // cut clauses whose tail is already being explored
}

type closureInfo struct {
	fn       *ssa.Function
	bindings []Value
}

func (x *exec) val(st *State, fr *Frame, v ssa.Value) Value {
	switch v := v.(type) {
	case *ssa.Const:
		return x.e.constValue(v)
	case *ssa.Global:
		return Value{T: v.Type(), P: &Ptr{Kind: PtrGlobal, Glob: v, Root: v.Type().(*types.Pointer).Elem()}}
	case *ssa.Function:
		return x.e.funcValue(v)
	case *ssa.Builtin:
		unsupported("builtin %s used as value", v.Name())
	}
	r, ok := st.regs[v]
	if !ok {
		unsupported("value %s (%T) of %s not computed on this path", v.Name(), v, v.Parent())
	}
	return r
}

func (e *Engine) funcValue(f *ssa.Function) Value {
	key := FuncKey(f)
	c := e.ctx.Const("fn<"+key+">", smt.Ref)
	if !e.fnConsts[key] {
		e.fnConsts[key] = true
		e.ctx.Axiom(smt.Not(smt.Eq(c, e.null())))
		e.ctx.Axiom(smt.Eq(e.stamp(c), smt.IntLit(0)))
		for _, o := range e.fnConstList {
			e.ctx.Axiom(smt.Not(smt.Eq(c, o)))
		}
		e.fnConstList = append(e.fnConstList, c)
	}
	return Value{T: f.Type(), L: []smt.Term{c}}
}

func (e *Engine) constValue(c *ssa.Const) Value {
	t := c.Type()
	if c.Value == nil {
		if tp, ok := types.Unalias(t).(*types.TypeParam); ok {
			_ = tp
		}
		return e.zero(t)
	}
	if tp, ok := types.Unalias(t).(*types.TypeParam); ok {
		unsupported("non-zero constant of type parameter %v", tp)
	}
	u := t.Underlying()
	b, ok := u.(*types.Basic)
	if !ok {
		unsupported("constant of type %v", t)
	}
	if w, _, ok := basicWidth(b); ok {
		if c.Value.Kind() != constant.Int {
			// rune/float constants convertible to int
			iv := constant.ToInt(c.Value)
			if iv.Kind() != constant.Int {
				unsupported("constant %v", c)
			}
			return e.intConst(t, iv, w)
		}
		return e.intConst(t, c.Value, w)
	}
	switch b.Kind() {
	case types.Bool, types.UntypedBool:
		return scalar(t, smt.BoolLit(constant.BoolVal(c.Value)))
	case types.String, types.UntypedString:
		return scalar(t, e.strLit(constant.StringVal(c.Value)))
	case types.Float32, types.Float64, types.UntypedFloat:
		return scalar(t, e.ctx.Const("f64<"+c.Value.ExactString()+">", smt.Sort("F64")))
	}
	unsupported("constant %v of type %v", c, t)
	return Value{}
}

func (e *Engine) intConst(t types.Type, v constant.Value, w int) Value {
	if u, ok := constant.Uint64Val(v); ok {
		return scalar(t, smt.BVLit(u, w))
	}
	if i, ok := constant.Int64Val(v); ok {
		return scalar(t, smt.BVLit(uint64(i), w))
	}
	unsupported("integer constant %v out of range", v)
	return Value{}
}

// ptrOf interprets a pointer-typed value as a static pointer.
func (x *exec) ptrOf(v Value) *Ptr {
	if v.P != nil {
		return v.P
	}
	pt, ok := types.Unalias(v.T).Underlying().(*types.Pointer)
	if !ok {
		unsupported("dereference of non-pointer type %v", v.T)
	}
	return &Ptr{Kind: PtrHeap, Base: v.one(), Root: pt.Elem()}
}

// nilCheck emits the nil-dereference obligation for heap pointers.
func (x *exec) nilCheck(st *State, ins ssa.Instruction, p *Ptr) {
	if p.Kind != PtrHeap {
		return
	}
	if st.nonNull[p.Base.S] {
		return
	}
	x.safe(st, ins, "nil", smt.Not(smt.Eq(p.Base, x.e.null())))
	if st.nonNull == nil {
		st.nonNull = map[string]bool{}
	}
	st.nonNull[p.Base.S] = true
}

func asInt64(e *Engine, v Value) smt.Term {
	w, signed, ok := intInfo(v.T)
	if !ok {
		unsupported("integer expected, got %v", v.T)
	}
	_ = w
	return smt.Resize(v.one(), 64, signed)
}

var zero64 = smt.BVLit(0, 64)

// run executes block b of frame fr starting at instruction i.
func (x *exec) run(st *State, fr *Frame, b *ssa.BasicBlock, from *ssa.BasicBlock) {
	// phis first (parallel assignment)
	var phiVals []Value
	var phis []*ssa.Phi
	for _, ins := range b.Instrs {
		phi, ok := ins.(*ssa.Phi)
		if !ok {
			break
		}
		idx := -1
		for i, p := range b.Preds {
			if p == from {
				idx = i
			}
		}
		if idx < 0 {
			unsupported("phi without matching predecessor")
		}
		phis = append(phis, phi)
		phiVals = append(phiVals, x.val(st, fr, phi.Edges[idx]))
	}
	for i, phi := range phis {
		v := phiVals[i]
		v.T = phi.Type()
		st.regs[phi] = v
	}
	for _, ins := range b.Instrs[len(phis):] {
		done := x.step(st, fr, b, ins)
		if done {
			return
		}
	}
}

// jump transfers control along the edge from -> to, cutting loops at their headers.
func (x *exec) jump(st *State, fr *Frame, from, to *ssa.BasicBlock) {
	if lp := fr.loops.byHeader[to]; lp != nil {
		if lp.body[from] {
			x.loopBack(st, fr, lp)
			return
		}
		if !x.loopEnter(st, fr, lp) {
			return
		}
	}
	x.run(st, fr, to, from)
}

// step executes one instruction; it returns true when the rest of the block must not run
// (control was transferred, or the continuation took over).
func (x *exec) step(st *State, fr *Frame, b *ssa.BasicBlock, ins ssa.Instruction) bool {
	e := x.e
	switch ins := ins.(type) {
	case *ssa.DebugRef:
		return false
	case *ssa.Alloc:
		elem := ins.Type().(*types.Pointer).Elem()
		if at, ok := types.Unalias(elem).Underlying().(*types.Array); ok && ins.Heap {
			// backing array (variadic arguments, arrays that are sliced)
			r := e.newRef(st, "arr")
			x.zeroMem(st, r, at.Elem())
			st.regs[ins] = Value{T: ins.Type(), L: []smt.Term{r}}
			st.setArrayLen(r, at.Len())
			return false
		}
		if ins.Heap {
			r := e.newRef(st, allocHint(ins))
			st.regs[ins] = Value{T: ins.Type(), L: []smt.Term{r}}
			if ti, key := e.w.typeInvOf(ins.Type()); ti != nil {
				if fr.loops.inAnyLoop[b] {
					unsupported("allocation of a type with a declared invariant inside a loop")
				}
				st.tiAllocs = append(st.tiAllocs, tiAlloc{r, key, ins.Type()})
			}
			e.storePtr(st, &Ptr{Kind: PtrHeap, Base: r, Root: elem}, e.zero(elem))
			if addrPrivate(ins, 0) {
				// a named local variable that lives in a heap cell
				if st.localCells == nil {
					st.localCells = map[string][]smt.Term{}
				}
				for _, l := range e.leaves(elem) {
					k := objKeyPrefix(elem) + l.Path
					st.localCells[k] = append(st.localCells[k], r)
				}
			}
			if st.nonNull == nil {
				st.nonNull = map[string]bool{}
			}
			st.nonNull[r.S] = true
			return false
		}
		st.locals[ins] = e.zero(elem)
		st.regs[ins] = Value{T: ins.Type(), P: &Ptr{Kind: PtrLocal, Alloc: ins, Root: elem}}
		return false
	case *ssa.FieldAddr:
		p := x.ptrOf(x.val(st, fr, ins.X))
		x.nilCheck(st, ins, p)
		np := *p
		np.Path = append(append([]int(nil), p.Path...), ins.Field)
		st.regs[ins] = Value{T: ins.Type(), P: &np}
		return false
	case *ssa.IndexAddr:
		xv := x.val(st, fr, ins.X)
		idx := asInt64(e, x.val(st, fr, ins.Index))
		switch xt := types.Unalias(ins.X.Type()).Underlying().(type) {
		case *types.Slice:
			x.safe(st, ins, "index", smt.And(smt.BVCmp("bvsle", zero64, idx), smt.BVCmp("bvslt", idx, xv.L[slLen])))
			st.regs[ins] = Value{T: ins.Type(), P: &Ptr{Kind: PtrElem, Base: xv.L[slArr], Idx: e.ctx.Name("ix", smt.BVBin("bvadd", xv.L[slOff], idx)), Root: xt.Elem()}}
		case *types.Pointer:
			at := types.Unalias(xt.Elem()).Underlying().(*types.Array)
			x.safe(st, ins, "index", smt.And(smt.BVCmp("bvsle", zero64, idx), smt.BVCmp("bvslt", idx, smt.BVLit(uint64(at.Len()), 64))))
			if xv.P != nil {
				st.regs[ins] = Value{T: ins.Type(), P: &Ptr{Kind: PtrArrayElem, Parent: xv.P, Idx: idx, Root: at.Elem()}}
			} else {
				p := x.ptrOf(xv)
				x.nilCheck(st, ins, p)
				st.regs[ins] = Value{T: ins.Type(), P: &Ptr{Kind: PtrElem, Base: xv.one(), Idx: idx, Root: at.Elem()}}
			}
		default:
			unsupported("IndexAddr on %v", ins.X.Type())
		}
		return false
	case *ssa.UnOp:
		st.regs[ins] = x.unop(st, fr, ins)
		return false
	case *ssa.Store:
		p := x.ptrOf(x.val(st, fr, ins.Addr))
		x.nilCheck(st, ins, p)
		v := x.val(st, fr, ins.Val)
		x.storeVia(st, p, v)
		return false
	case *ssa.BinOp:
		st.regs[ins] = x.binop(st, ins, ins.Op, x.val(st, fr, ins.X), x.val(st, fr, ins.Y), ins.Type())
		return false
	case *ssa.Convert:
		st.regs[ins] = x.convert(st, x.val(st, fr, ins.X), ins.Type())
		return false
	case *ssa.ChangeType:
		v := x.val(st, fr, ins.X)
		v.T = ins.Type()
		st.regs[ins] = v
		return false
	case *ssa.ChangeInterface:
		v := x.val(st, fr, ins.X)
		v.T = ins.Type()
		st.regs[ins] = v
		return false
	case *ssa.MakeInterface:
		v := x.val(st, fr, ins.X)
		bt := e.ctx.Name("box", e.box(v))
		for _, f := range e.boxFacts(bt, v) {
			st.assume(f)
		}
		st.assume(smt.Not(smt.Eq(bt, e.nilIface())))
		st.regs[ins] = Value{T: ins.Type(), L: []smt.Term{bt}}
		return false
	case *ssa.TypeAssert:
		st.regs[ins] = x.typeAssert(st, ins, x.val(st, fr, ins.X))
		return false
	case *ssa.Extract:
		t := x.val(st, fr, ins.Tuple)
		if ins.Index >= len(t.Elems) {
			unsupported("extract #%d of %d-tuple", ins.Index, len(t.Elems))
		}
		st.regs[ins] = t.Elems[ins.Index]
		return false
	case *ssa.Field:
		v := x.val(st, fr, ins.X)
		st.regs[ins] = e.subValue(v, ins.X.Type(), []int{ins.Field})
		return false
	case *ssa.Index:
		xv := x.val(st, fr, ins.X)
		idx := asInt64(e, x.val(st, fr, ins.Index))
		switch xt := types.Unalias(ins.X.Type()).Underlying().(type) {
		case *types.Array:
			x.safe(st, ins, "index", smt.And(smt.BVCmp("bvsle", zero64, idx), smt.BVCmp("bvslt", idx, smt.BVLit(uint64(xt.Len()), 64))))
			st.regs[ins] = scalar(ins.Type(), smt.Select(xv.one(), idx))
		case *types.Basic:
			if xt.Info()&types.IsString == 0 {
				unsupported("Index on %v", ins.X.Type())
			}
			// s[i] on a string: bounds obligation, byte-at function of the string
			x.safe(st, ins, "index", smt.And(smt.BVCmp("bvsle", zero64, idx), smt.BVCmp("bvslt", idx, e.strLen(xv.one()))))
			st.regs[ins] = scalar(ins.Type(), e.strAt(xv.one(), idx))
		default:
			unsupported("Index on %v", ins.X.Type())
		}
		return false
	case *ssa.Lookup:
		st.regs[ins] = x.lookup(st, fr, ins)
		return false
	case *ssa.Slice:
		st.regs[ins] = x.sliceOp(st, fr, ins)
		return false
	case *ssa.MakeSlice:
		ln := asInt64(e, x.val(st, fr, ins.Len))
		cp := asInt64(e, x.val(st, fr, ins.Cap))
		x.safe(st, ins, "makeslice", smt.And(smt.BVCmp("bvsle", zero64, ln), smt.BVCmp("bvsle", ln, cp)))
		// "makeslice: len out of range" also fires when the request exceeds the address-space limit of the allocator
		// (2^48 bytes on the 64-bit platforms this library targets); running out of real memory below that limit is not
		// modelled
		x.safe(st, ins, "makeslice-size", smt.BVCmp("bvsle", cp, smt.BVLit(uint64(1)<<47, 64)))
		r := e.newRef(st, "mk")
		x.zeroMem(st, r, types.Unalias(ins.Type()).Underlying().(*types.Slice).Elem())
		st.regs[ins] = Value{T: ins.Type(), L: []smt.Term{r, zero64, ln, cp}}
		return false
	case *ssa.MakeClosure:
		fn := ins.Fn.(*ssa.Function)
		r := e.newRef(st, "clo")
		var bs []Value
		for _, bnd := range ins.Bindings {
			bs = append(bs, x.val(st, fr, bnd))
		}
		x.closures[r.S] = &closureInfo{fn, bs}
		fid := e.ctx.Fun("fnid", []smt.Sort{smt.Ref}, smt.Int)
		st.assume(smt.Eq(smt.App(smt.Int, fid, r), e.fnID(fn)))
		st.regs[ins] = Value{T: ins.Type(), L: []smt.Term{r}}
		return false
	case *ssa.MakeMap:
		r := e.newRef(st, "map")
		x.initMap(st, r, ins.Type())
		st.regs[ins] = Value{T: ins.Type(), L: []smt.Term{r}}
		return false
	case *ssa.MakeChan:
		r := e.newRef(st, "chan")
		st.regs[ins] = Value{T: ins.Type(), L: []smt.Term{r}}
		return false
	case *ssa.MapUpdate:
		x.mapUpdate(st, fr, ins)
		return false
	case *ssa.Send:
		// channel send: no effect on verified state (Conn.mu is a one-slot channel used as a mutex); recorded as a quiet
		// event so that contracts can count and order channel operations (calls(chan.send), arg(chan.send, k, ch))
		e.note("channel send in %s: no effect on verified state, blocking not modelled", shortKey(FuncKey(ins.Parent())))
		x.recordEventVals(st, ins, "chan:send", "chan", []Value{x.val(st, fr, ins.Chan), x.val(st, fr, ins.X)}, []string{"ch", "val"})
		st.trace[len(st.trace)-1].Quiet = true
		return false
	case *ssa.Go:
		x.recordEvent(st, fr, ins, "go")
		return false
	case *ssa.Defer:
		d := deferred{call: ins}
		if !ins.Call.IsInvoke() {
			if _, isB := ins.Call.Value.(*ssa.Builtin); !isB {
				d.fn = x.val(st, fr, ins.Call.Value)
			}
		} else {
			d.fn = x.val(st, fr, ins.Call.Value)
		}
		for _, a := range ins.Call.Args {
			d.args = append(d.args, x.val(st, fr, a))
		}
		if fr.loops.inAnyLoop[b] {
			unsupported("defer inside a loop")
		}
		if st.defers == nil {
			st.defers = map[*Frame][]deferred{}
		}
		st.defers[fr] = append(st.defers[fr], d)
		return false
	case *ssa.RunDefers:
		ds := st.defers[fr]
		if len(ds) == 0 {
			return false
		}
		delete(st.defers, fr)
		rest := b.Instrs[indexOf(b, ins)+1:]
		x.runDefers(st, fr, ds, func(st *State) {
			for _, r := range rest {
				if x.step(st, fr, b, r) {
					return
				}
			}
		})
		return true
	case *ssa.Call:
		rest := b.Instrs[indexOf(b, ins)+1:]
		x.call(st, fr, ins, ins.Common(), func(st *State, rets []Value) {
			st.regs[ins] = x.packResults(ins.Type(), rets)
			// each continuation needs its own view of the frame's defers
			for _, r := range rest {
				if x.step(st, fr, b, r) {
					return
				}
			}
		})
		return true
	case *ssa.If:
		c := x.val(st, fr, ins.Cond).one()
		if c.IsTrue() {
			x.jump(st, fr, b, b.Succs[0])
			return true
		}
		if c.IsFalse() {
			x.jump(st, fr, b, b.Succs[1])
			return true
		}
		x.countPath()
		st2 := st.clone()
		st.assume(c)
		x.jump(st, fr, b, b.Succs[0])
		st2.assume(smt.Not(c))
		x.jump(st2, fr, b, b.Succs[1])
		return true
	case *ssa.Jump:
		x.jump(st, fr, b, b.Succs[0])
		return true
	case *ssa.Return:
		var rets []Value
		for _, r := range ins.Results {
			rets = append(rets, x.val(st, fr, r))
		}
		fr.k(st, rets)
		return true
	case *ssa.Panic:
		x.e.obligation(st, "safe", "panic"+x.siteName(ins), "C09.nopanic", "explicit panic is unreachable", posString(e.w.fset(), ins.Pos()), smt.False)
		return true
	case *ssa.Select:
		// select: which ready case is taken is not modelled - the index is arbitrary among the cases (or -1, the default
		// case, when the select does not block), received values are arbitrary values of their types. Blocking and
		// wake-up order are outside sequential reasoning (reported as an assumption).
		e.note("select in %s: the case taken is arbitrary, received values unconstrained; blocking not modelled", shortKey(FuncKey(ins.Parent())))
		idx := e.ctx.Fresh("selidx", bv64)
		lo := zero64
		if !ins.Blocking {
			lo = smt.BVLit(^uint64(0), 64)
		}
		st.assume(smt.And(smt.BVCmp("bvsle", lo, idx), smt.BVCmp("bvslt", idx, smt.BVLit(uint64(len(ins.States)), 64))))
		tup := ins.Type().(*types.Tuple)
		out := Value{T: ins.Type(), Elems: []Value{scalar(tup.At(0).Type(), idx), scalar(types.Typ[types.Bool], e.ctx.Fresh("selok", smt.Bool))}}
		for i := 2; i < tup.Len(); i++ {
			rv := e.fresh("selrecv", tup.At(i).Type())
			e.assumeValid(st, rv)
			out.Elems = append(out.Elems, rv)
		}
		var chans []Value
		for _, s := range ins.States {
			chans = append(chans, x.val(st, fr, s.Chan))
		}
		x.recordEventVals(st, ins, "chan:select", "chan", append([]Value{scalar(tInt, idx)}, chans...), []string{"index"})
		st.trace[len(st.trace)-1].Quiet = true
		st.trace[len(st.trace)-1].Rets = []Value{scalar(tInt, idx)}
		st.regs[ins] = out
		return false
	case *ssa.Range:
		// iteration over a map or a string is abstracted: Next yields an arbitrary element in no particular order; the loop
		// is cut like any other. For a map, a ghost set of visited keys says that no key is produced twice and that, when
		// the iteration ends, every key that was in the map at the start and still is has been produced (Go's guarantee
		// for maps that are modified during the iteration is exactly this).
		st.regs[ins] = x.val(st, fr, ins.X)
		if mt, ok := types.Unalias(ins.X.Type()).Underlying().(*types.Map); ok {
			hk, ks, _, _ := x.mapKeys(mt)
			coll := st.regs[ins].one()
			if st.ghostLocals == nil {
				st.ghostLocals = map[string]Value{}
			}
			id := x.rangeID(ins)
			vs := smt.ArrayOf(ks, smt.Bool)
			st.ghostLocals["$visited#"+id] = Value{L: []smt.Term{smt.Term{S: fmt.Sprintf("((as const %s) false)", vs), Sort: vs}}}
			st.ghostLocals["$rangehas#"+id] = Value{L: []smt.Term{e.ctx.Name("has0", smt.Select(e.heapArr(st, hk, smt.Ref, smt.ArrayOf(ks, smt.Bool)), coll))}}
		}
		return false
	case *ssa.Next:
		it := ins.Iter.(*ssa.Range)
		coll := x.val(st, fr, ins.Iter)
		ok := e.ctx.Fresh("nextok", smt.Bool)
		tup := ins.Type().(*types.Tuple)
		kt, vt := tup.At(1).Type(), tup.At(2).Type()
		var kv, vv Value
		if ins.IsString {
			kv = e.fresh("ridx", kt)
			vv = e.fresh("rune", vt)
			n := e.strLen(coll.one())
			st.assume(smt.Implies(ok, smt.And(smt.BVCmp("bvsle", zero64, kv.one()), smt.BVCmp("bvslt", kv.one(), n))))
		} else {
			mt := types.Unalias(it.X.Type()).Underlying().(*types.Map)
			if isInvalid(kt) {
				kt = mt.Key()
			}
			if isInvalid(vt) {
				vt = mt.Elem()
			}
			kv = e.fresh("rkey", kt)
			e.assumeValid(st, kv)
			hk, ks, vls, vp := x.mapKeys(mt)
			k := e.leavesOf(kv)[0]
			has := smt.Select(smt.Select(e.heapArr(st, hk, smt.Ref, smt.ArrayOf(ks, smt.Bool)), coll.one()), k)
			st.assume(smt.Implies(ok, smt.And(smt.Not(smt.Eq(coll.one(), e.null())), has)))
			id := x.rangeID(it)
			if vis, have := st.ghostLocals["$visited#"+id]; have {
				v := vis.L[0]
				st.assume(smt.Implies(ok, smt.Not(smt.Select(v, k))))
				nv := e.ctx.Name("visited", smt.Ite(ok, smt.Store(v, k, smt.True), v))
				st.ghostLocals["$visited#"+id] = Value{L: []smt.Term{nv}}
				if has0, have0 := st.ghostLocals["$rangehas#"+id]; have0 {
					hasNow := e.ctx.Name("hasnow", smt.Select(e.heapArr(st, hk, smt.Ref, smt.ArrayOf(ks, smt.Bool)), coll.one()))
					q := fmt.Sprintf("(forall ((k!rv %s)) (! (=> (and (select %s k!rv) (select %s k!rv)) (select %s k!rv)) :pattern ((select %s k!rv)) :pattern ((select %s k!rv))))",
						ks, has0.L[0].S, hasNow.S, nv.S, nv.S, hasNow.S)
					st.assume(smt.Implies(smt.Not(ok), smt.Term{S: q, Sort: smt.Bool}))
				}
			}
			vv = Value{T: vt}
			for _, l := range vls {
				arr := e.heapArr(st, vp+l.Path, smt.Ref, smt.ArrayOf(ks, l.Sort))
				vv.L = append(vv.L, e.ctx.Name("rval", smt.Select(smt.Select(arr, coll.one()), k)))
			}
			e.assumeValidUnder(st, ok, vv)
		}
		st.regs[ins] = Value{T: ins.Type(), Elems: []Value{scalar(types.Typ[types.Bool], ok), kv, vv}}
		return false
	}
	unsupported("instruction %T", ins)
	return true
}

// rangeID names a range instruction (position in its function) for the ghost state of map iterations.
func (x *exec) rangeID(r *ssa.Range) string {
	n := 0
	for _, b := range r.Parent().Blocks {
		for _, i := range b.Instrs {
			if rr, ok := i.(*ssa.Range); ok {
				n++
				if rr == r {
					return fmt.Sprintf("%s#%d", r.Parent().Name(), n)
				}
			}
		}
	}
	return "?"
}

// addrPrivate reports whether the address held by v (an Alloc or a FreeVar bound to one) is only ever used to load,
// store, take field addresses for loads/stores, or be captured by closures that do the same: then no code outside
// the function and its closures can reach the cell.
func addrPrivate(v ssa.Value, depth int) bool {
	if depth > 4 {
		return false
	}
	refs := v.Referrers()
	if refs == nil {
		return false
	}
	for _, r := range *refs {
		switch x := r.(type) {
		case *ssa.DebugRef:
		case *ssa.UnOp:
			// load
		case *ssa.Store:
			if x.Val == v {
				return false // the address itself is stored somewhere
			}
		case *ssa.FieldAddr:
			if !addrPrivate(x, depth+1) {
				return false
			}
		case *ssa.MakeClosure:
			fn := x.Fn.(*ssa.Function)
			for i, b := range x.Bindings {
				if b == v {
					if i >= len(fn.FreeVars) || !addrPrivate(fn.FreeVars[i], depth+1) {
						return false
					}
				}
			}
		case ssa.CallInstruction:
			// intrinsics on fields (atomics, mutexes) keep the address private
			c := x.Common()
			if f := c.StaticCallee(); f != nil && isIntrinsicKey(FuncKey(f)) && len(c.Args) > 0 && c.Args[0] == v {
				continue
			}
			return false
		default:
			return false
		}
	}
	return true
}

func isInvalid(t types.Type) bool {
	b, ok := t.(*types.Basic)
	return ok && b.Kind() == types.Invalid
}

func allocHint(a *ssa.Alloc) string {
	if a.Comment != "" {
		return "new_" + strings.NewReplacer(" ", "_", "$", "_").Replace(a.Comment)
	}
	return "new"
}

func indexOf(b *ssa.BasicBlock, ins ssa.Instruction) int {
	for i, x := range b.Instrs {
		if x == ins {
			return i
		}
	}
	panic("instruction not in block")
}

func (x *exec) countPath() {
	x.e.paths++
	if x.e.paths > x.e.maxPaths {
		unsupported("more than %d paths", x.e.maxPaths)
	}
	if x.e.paths%64 == 0 && time.Since(x.e.started) > x.e.budget {
		unsupported("VC generation exceeded its time budget of %s after %d paths", x.e.budget, x.e.paths)
	}
}

func (x *exec) packResults(t types.Type, rets []Value) Value {
	if tup, ok := t.(*types.Tuple); ok {
		if tup.Len() == 0 {
			return Value{T: t}
		}
		els := make([]Value, len(rets))
		for i := range rets {
			els[i] = rets[i]
			if i < tup.Len() {
				els[i].T = tup.At(i).Type()
			}
		}
		return Value{T: t, Elems: els}
	}
	if len(rets) == 1 {
		v := rets[0]
		v.T = t
		return v
	}
	if len(rets) == 0 {
		return Value{T: t}
	}
	unsupported("call result shape")
	return Value{}
}

// storeVia stores through any pointer kind.
func (x *exec) storeVia(st *State, p *Ptr, v Value) {
	if p.Kind == PtrArrayElem {
		cur := x.loadVia(st, p.Parent)
		nv := scalar(cur.T, x.e.ctx.Name("arrst", smt.Store(cur.one(), p.Idx, x.e.leavesOf(v)[0])))
		x.storeVia(st, p.Parent, nv)
		return
	}
	x.e.storePtr(st, p, v)
}

func (x *exec) loadVia(st *State, p *Ptr) Value {
	if p.Kind == PtrArrayElem {
		cur := x.loadVia(st, p.Parent)
		return scalar(p.Root, smt.Select(cur.one(), p.Idx))
	}
	return x.e.loadPtr(st, p)
}

func (x *exec) zeroMem(st *State, r smt.Term, elem types.Type) {
	e := x.e
	for _, l := range e.leaves(elem) {
		key := memKeyPrefix(elem) + l.Path
		arr := e.heapArr(st, key, smt.Ref, smt.ArrayOf(bv64, l.Sort))
		z := e.zeroLeaf(smt.ArrayOf(bv64, l.Sort))
		e.setHeapArr(st, key, smt.Store(arr, r, z))
	}
}

func (st *State) setArrayLen(r smt.Term, n int64) {
	if st.arrLen == nil {
		st.arrLen = map[string]int64{}
	}
	st.arrLen[r.S] = n
}

func (x *exec) unop(st *State, fr *Frame, ins *ssa.UnOp) Value {
	e := x.e
	v := x.val(st, fr, ins.X)
	switch ins.Op {
	case token.MUL:
		p := x.ptrOf(v)
		x.nilCheck(st, ins, p)
		r := x.loadVia(st, p)
		r.T = ins.Type()
		return r
	case token.NOT:
		return scalar(ins.Type(), smt.Not(v.one()))
	case token.SUB:
		if _, _, ok := intInfo(v.T); ok {
			return scalar(ins.Type(), smt.BVNeg(v.one()))
		}
		unsupported("negation of %v", v.T)
	case token.XOR:
		return scalar(ins.Type(), smt.BVNot(v.one()))
	case token.ARROW:
		// channel receive: value unconstrained; recorded as a quiet event (calls(chan.recv), arg(chan.recv, k, ch))
		e.note("channel receive in %s: received value unconstrained, blocking not modelled", shortKey(FuncKey(ins.Parent())))
		x.recordEventVals(st, ins, "chan:recv", "chan", []Value{v}, []string{"ch"})
		st.trace[len(st.trace)-1].Quiet = true
		et := types.Unalias(ins.X.Type()).Underlying().(*types.Chan).Elem()
		r := e.fresh("recv", et)
		e.assumeValid(st, r)
		if ins.CommaOk {
			return Value{T: ins.Type(), Elems: []Value{r, scalar(types.Typ[types.Bool], e.ctx.Fresh("recvok", smt.Bool))}}
		}
		return r
	}
	unsupported("unary %s", ins.Op)
	return Value{}
}

func (x *exec) binop(st *State, ins ssa.Instruction, op token.Token, a, b Value, rt types.Type) Value {
	e := x.e
	at := types.Unalias(a.T).Underlying()
	if w, signed, ok := intInfo(a.T); ok {
		_ = w
		x1, y1 := a.one(), b.one()
		switch op {
		case token.SHL, token.SHR:
			bw, bsigned, _ := intInfo(b.T)
			cnt := y1
			if bsigned && ins != nil {
				x.safe(st, ins, "shift", smt.BVCmp("bvsge", cnt, smt.BVLit(0, bw)))
			}
			var sh smt.Term
			name := "bvshl"
			if op == token.SHR {
				name = "bvlshr"
				if signed {
					name = "bvashr"
				}
			}
			if bw <= w {
				sh = smt.BVBin(name, x1, smt.Resize(cnt, w, false))
			} else {
				// count wider than operand: saturate
				big := smt.BVCmp("bvuge", cnt, smt.BVLit(uint64(w), bw))
				sat := smt.BVLit(uint64(w), w)
				sh = smt.BVBin(name, x1, smt.Ite(big, sat, smt.Resize(cnt, w, false)))
			}
			return scalar(rt, sh)
		}
		if x1.Sort != y1.Sort {
			unsupported("binary %s on %v and %v", op, a.T, b.T)
		}
		switch op {
		case token.ADD:
			return scalar(rt, smt.BVBin("bvadd", x1, y1))
		case token.SUB:
			return scalar(rt, smt.BVBin("bvsub", x1, y1))
		case token.MUL:
			return scalar(rt, smt.BVBin("bvmul", x1, y1))
		case token.QUO, token.REM:
			if ins != nil {
				x.safe(st, ins, "div", smt.Not(smt.Eq(y1, smt.BVLit(0, w))))
			}
			name := map[bool]map[token.Token]string{true: {token.QUO: "bvsdiv", token.REM: "bvsrem"}, false: {token.QUO: "bvudiv", token.REM: "bvurem"}}[signed][op]
			return scalar(rt, smt.BVBin(name, x1, y1))
		case token.AND:
			return scalar(rt, smt.BVBin("bvand", x1, y1))
		case token.OR:
			return scalar(rt, smt.BVBin("bvor", x1, y1))
		case token.XOR:
			return scalar(rt, smt.BVBin("bvxor", x1, y1))
		case token.AND_NOT:
			return scalar(rt, smt.BVBin("bvand", x1, smt.BVNot(y1)))
		case token.EQL:
			return scalar(rt, smt.Eq(x1, y1))
		case token.NEQ:
			return scalar(rt, smt.Not(smt.Eq(x1, y1)))
		case token.LSS, token.LEQ, token.GTR, token.GEQ:
			name := map[token.Token]string{token.LSS: "lt", token.LEQ: "le", token.GTR: "gt", token.GEQ: "ge"}[op]
			pre := "bvu"
			if signed {
				pre = "bvs"
			}
			return scalar(rt, smt.BVCmp(pre+name, x1, y1))
		}
		unsupported("integer operator %s", op)
	}
	if bt, ok := at.(*types.Basic); ok && bt.Info()&types.IsString != 0 {
		x1, y1 := a.one(), b.one()
		switch op {
		case token.ADD:
			return scalar(rt, e.strConcat(st, x1, y1))
		case token.EQL:
			return scalar(rt, e.strEq(st, x1, y1))
		case token.NEQ:
			return scalar(rt, smt.Not(e.strEq(st, x1, y1)))
		case token.LSS, token.LEQ, token.GTR, token.GEQ:
			f := e.ctx.Fun("s.lt", []smt.Sort{smt.Str, smt.Str}, smt.Bool)
			lt := func(p, q smt.Term) smt.Term { return smt.App(smt.Bool, f, p, q) }
			switch op {
			case token.LSS:
				return scalar(rt, lt(x1, y1))
			case token.GTR:
				return scalar(rt, lt(y1, x1))
			case token.LEQ:
				return scalar(rt, smt.Not(lt(y1, x1)))
			default:
				return scalar(rt, smt.Not(lt(x1, y1)))
			}
		}
		unsupported("string operator %s", op)
	}
	if bt, ok := at.(*types.Basic); ok && bt.Info()&types.IsFloat != 0 {
		name := "f64." + op.String()
		switch op {
		case token.EQL, token.NEQ, token.LSS, token.LEQ, token.GTR, token.GEQ:
			f := e.ctx.Fun(name, []smt.Sort{a.one().Sort, a.one().Sort}, smt.Bool)
			if op == token.EQL {
				return scalar(rt, smt.Eq(a.one(), b.one()))
			}
			if op == token.NEQ {
				return scalar(rt, smt.Not(smt.Eq(a.one(), b.one())))
			}
			return scalar(rt, smt.App(smt.Bool, f, a.one(), b.one()))
		}
		f := e.ctx.Fun(name, []smt.Sort{a.one().Sort, a.one().Sort}, a.one().Sort)
		return scalar(rt, smt.App(a.one().Sort, f, a.one(), b.one()))
	}
	// equality on everything else: leaf-wise
	switch op {
	case token.EQL, token.NEQ:
		eq := x.valuesEqual(st, a, b)
		if op == token.NEQ {
			eq = smt.Not(eq)
		}
		return scalar(rt, eq)
	case token.AND, token.OR, token.XOR:
		if a.one().Sort == smt.Bool {
			switch op {
			case token.AND:
				return scalar(rt, smt.And(a.one(), b.one()))
			case token.OR:
				return scalar(rt, smt.Or(a.one(), b.one()))
			}
		}
	}
	unsupported("binary %s on %v", op, a.T)
	return Value{}
}

// valuesEqual compares two values of the same (comparable) type.
func (x *exec) valuesEqual(st *State, a, b Value) smt.Term {
	e := x.e
	if a.P != nil || b.P != nil {
		// comparisons involving static pointers: only against nil or the same object
		if a.P != nil && b.P != nil {
			if a.P.Kind == PtrLocal && b.P.Kind == PtrLocal {
				return smt.BoolLit(a.P.Alloc == b.P.Alloc && fmt.Sprint(a.P.Path) == fmt.Sprint(b.P.Path))
			}
			if a.P.Kind == PtrHeap && b.P.Kind == PtrHeap && fmt.Sprint(a.P.Path) == fmt.Sprint(b.P.Path) {
				return smt.Eq(a.P.Base, b.P.Base)
			}
			unsupported("comparison of static pointers")
		}
		o := b
		if a.P == nil {
			o = a
		}
		if len(o.L) == 1 && o.L[0].S == e.null().S {
			return smt.False // a static pointer is never nil
		}
		unsupported("comparison of a static pointer with a symbolic one")
	}
	// slices compare with nil only: the backing array decides
	if _, ok := types.Unalias(a.T).Underlying().(*types.Slice); ok && len(a.L) == 4 && len(b.L) == 4 {
		return smt.Eq(a.L[slArr], b.L[slArr])
	}
	// interface vs concrete cannot happen in SSA (MakeInterface inserted)
	la, lb := e.leavesOf(a), e.leavesOf(b)
	if len(la) != len(lb) {
		unsupported("comparison of %v and %v", a.T, b.T)
	}
	var cs []smt.Term
	ls := e.leaves(a.T)
	for i := range la {
		if ls[i].Sort == smt.Str {
			cs = append(cs, e.strEq(st, la[i], lb[i]))
		} else {
			cs = append(cs, smt.Eq(la[i], lb[i]))
		}
	}
	return smt.And(cs...)
}

func (e *Engine) strEq(st *State, a, b smt.Term) smt.Term { return smt.Eq(a, b) }

func (e *Engine) strConcat(st *State, a, b smt.Term) smt.Term {
	f := e.ctx.Fun("s.concat", []smt.Sort{smt.Str, smt.Str}, smt.Str)
	r := e.ctx.Name("cat", smt.App(smt.Str, f, a, b))
	st.assume(smt.Eq(e.strLen(r), smt.BVBin("bvadd", e.strLen(a), e.strLen(b))))
	return r
}

func (x *exec) convert(st *State, v Value, to types.Type) Value {
	e := x.e
	from := v.T
	fw, fsigned, fok := intInfo(from)
	tw, _, tok := intInfo(to)
	if fok && tok {
		_ = fw
		return scalar(to, smt.Resize(v.one(), tw, fsigned))
	}
	fu, tu := types.Unalias(from).Underlying(), types.Unalias(to).Underlying()
	isStr := func(t types.Type) bool { b, ok := t.(*types.Basic); return ok && b.Info()&types.IsString != 0 }
	isFloat := func(t types.Type) bool { b, ok := t.(*types.Basic); return ok && b.Info()&types.IsFloat != 0 }
	switch {
	case isStr(fu) && isStr(tu):
		return scalar(to, v.one())
	case isStr(tu):
		if sl, ok := fu.(*types.Slice); ok {
			// string(bytes): content is a function of the bytes; only the length is known
			_ = sl
			r := e.ctx.Fresh("str_of_bytes", smt.Str)
			st.assume(smt.Eq(e.strLen(r), v.L[slLen]))
			x.linkBytes(st, r, v)
			return scalar(to, r)
		}
		if fok {
			f := e.ctx.Fun("s.ofrune", []smt.Sort{bv64}, smt.Str)
			return scalar(to, smt.App(smt.Str, f, smt.Resize(v.one(), 64, fsigned)))
		}
	case isStr(fu):
		if sl, ok := tu.(*types.Slice); ok {
			r := e.newRef(st, "bytes_of_str")
			n := e.strLen(v.one())
			res := Value{T: to, L: []smt.Term{r, zero64, n, n}}
			_ = sl
			x.linkBytes(st, v.one(), res)
			return res
		}
	case isFloat(fu) || isFloat(tu):
		ls := e.leaves(to)
		f := e.ctx.Fun("conv<"+typeKey(from)+">"+typeKey(to), []smt.Sort{v.one().Sort}, ls[0].Sort)
		return scalar(to, smt.App(ls[0].Sort, f, v.one()))
	}
	if types.Identical(fu, tu) || isPointerShaped(from) && isPointerShaped(to) {
		v.T = to
		return v
	}
	unsupported("conversion %v -> %v", from, to)
	return Value{}
}

// linkBytes states that string s and byte slice b have the same content (point-wise, over b's absolute index).
func (x *exec) linkBytes(st *State, s smt.Term, b Value) {
	e := x.e
	key := memKeyPrefix(types.Typ[types.Uint8])
	arr := e.heapArr(st, key, smt.Ref, smt.ArrayOf(bv64, smt.BV(8)))
	inner := e.ctx.Name("bytes", smt.Select(arr, b.L[slArr]))
	k := "k!lb"
	body := fmt.Sprintf("(forall ((%s (_ BitVec 64))) (! (=> (and (bvsle %s %s) (bvslt %s (bvadd %s %s))) (= (select %s %s) (%s %s (bvsub %s %s)))) :pattern ((select %s %s))))",
		k, b.L[slOff].S, k, k, b.L[slOff].S, b.L[slLen].S, inner.S, k, "s.at", s.S, k, b.L[slOff].S, inner.S, k)
	e.ctx.Fun("s.at", []smt.Sort{smt.Str, bv64}, smt.BV(8))
	st.assume(smt.Term{S: body, Sort: smt.Bool})
}

func (x *exec) typeAssert(st *State, ins *ssa.TypeAssert, v Value) Value {
	e := x.e
	i := v.one()
	var ok smt.Term
	var res Value
	if types.IsInterface(ins.AssertedType) {
		ok = smt.And(smt.Not(smt.Eq(i, e.nilIface())), e.implements(e.dyn(i), ins.AssertedType))
		if types.IsInterface(v.T) && types.AssignableTo(v.T, ins.AssertedType) {
			ok = smt.Not(smt.Eq(i, e.nilIface()))
		}
		res = Value{T: ins.AssertedType, L: []smt.Term{i}}
	} else {
		ok = smt.Eq(e.dyn(i), e.typeTag(ins.AssertedType))
		res = e.unbox(i, ins.AssertedType)
	}
	ok = e.ctx.Name("taok", ok)
	if !ins.CommaOk {
		x.safe(st, ins, "typeassert", ok)
		if !types.IsInterface(ins.AssertedType) {
			st.assume(smt.Eq(i, e.box(res)))
			e.assumeValid(st, res)
		}
		return res
	}
	// comma-ok: result is zero value when !ok
	z := e.zero(ins.AssertedType)
	out := Value{T: ins.AssertedType, L: make([]smt.Term, len(res.L))}
	for k := range res.L {
		out.L[k] = e.ctx.Name("ta", smt.Ite(ok, res.L[k], z.L[k]))
	}
	if !types.IsInterface(ins.AssertedType) {
		st.assume(smt.Implies(ok, smt.Eq(i, e.box(res))))
	}
	e.assumeValidUnder(st, ok, res)
	return Value{T: ins.Type(), Elems: []Value{out, scalar(types.Typ[types.Bool], ok)}}
}

// assumeValidUnder adds type invariants guarded by a condition.
func (e *Engine) assumeValidUnder(st *State, c smt.Term, v Value) {
	tmp := &State{clock: st.clock}
	e.assumeValid(tmp, v)
	for _, a := range tmp.pc {
		st.assume(smt.Implies(c, a))
	}
}

func (e *Engine) implements(tag smt.Term, it types.Type) smt.Term {
	key := typeKey(it)
	f := e.ctx.Fun("impl<"+key+">", []smt.Sort{smt.Int}, smt.Bool)
	if !e.implIfaces[key] {
		e.implIfaces[key] = true
		e.implList = append(e.implList, it)
	}
	return smt.App(smt.Bool, f, tag)
}

func (e *Engine) fnID(fn *ssa.Function) smt.Term {
	key := FuncKey(fn)
	if n, ok := e.fnIDs[key]; ok {
		return smt.IntLit(int64(n))
	}
	n := len(e.fnIDs) + 1
	e.fnIDs[key] = n
	return smt.IntLit(int64(n))
}

func (x *exec) sliceOp(st *State, fr *Frame, ins *ssa.Slice) Value {
	e := x.e
	xv := x.val(st, fr, ins.X)
	get := func(v ssa.Value, def smt.Term) smt.Term {
		if v == nil {
			return def
		}
		return asInt64(e, x.val(st, fr, v))
	}
	switch xt := types.Unalias(ins.X.Type()).Underlying().(type) {
	case *types.Slice:
		lo := get(ins.Low, zero64)
		hi := get(ins.High, xv.L[slLen])
		mx := get(ins.Max, xv.L[slCap])
		x.safe(st, ins, "slice", smt.And(smt.BVCmp("bvsle", zero64, lo), smt.BVCmp("bvsle", lo, hi), smt.BVCmp("bvsle", hi, mx), smt.BVCmp("bvsle", mx, xv.L[slCap])))
		return Value{T: ins.Type(), L: []smt.Term{
			xv.L[slArr],
			e.ctx.Name("off", smt.BVBin("bvadd", xv.L[slOff], lo)),
			e.ctx.Name("len", smt.BVBin("bvsub", hi, lo)),
			e.ctx.Name("cap", smt.BVBin("bvsub", mx, lo)),
		}}
	case *types.Basic: // string
		n := e.strLen(xv.one())
		lo := get(ins.Low, zero64)
		hi := get(ins.High, n)
		x.safe(st, ins, "slice", smt.And(smt.BVCmp("bvsle", zero64, lo), smt.BVCmp("bvsle", lo, hi), smt.BVCmp("bvsle", hi, n)))
		return scalar(ins.Type(), e.strSub(st, xv.one(), lo, hi))
	case *types.Pointer:
		at, ok := types.Unalias(xt.Elem()).Underlying().(*types.Array)
		if !ok || xv.P != nil {
			unsupported("slice of %v", ins.X.Type())
		}
		n := smt.BVLit(uint64(at.Len()), 64)
		lo := get(ins.Low, zero64)
		hi := get(ins.High, n)
		mx := get(ins.Max, n)
		x.safe(st, ins, "slice", smt.And(smt.BVCmp("bvsle", zero64, lo), smt.BVCmp("bvsle", lo, hi), smt.BVCmp("bvsle", hi, mx), smt.BVCmp("bvsle", mx, n)))
		return Value{T: ins.Type(), L: []smt.Term{xv.one(), lo, smt.BVBin("bvsub", hi, lo), smt.BVBin("bvsub", mx, lo)}}
	}
	unsupported("slice of %v", ins.X.Type())
	return Value{}
}

// strSub models s[lo:hi].
func (e *Engine) strSub(st *State, s, lo, hi smt.Term) smt.Term {
	f := e.ctx.Fun("s.sub", []smt.Sort{smt.Str, bv64, bv64}, smt.Str)
	r := e.ctx.Name("sub", smt.App(smt.Str, f, s, lo, hi))
	st.assume(smt.Eq(e.strLen(r), smt.BVBin("bvsub", hi, lo)))
	// s[0:len(s)] == s
	st.assume(smt.Implies(smt.And(smt.Eq(lo, zero64), smt.Eq(hi, e.strLen(s))), smt.Eq(r, s)))
	// content, point-wise
	e.ctx.Fun("s.at", []smt.Sort{smt.Str, bv64}, smt.BV(8))
	body := fmt.Sprintf("(forall ((k!ss (_ BitVec 64))) (! (=> (and (bvsle #x0000000000000000 k!ss) (bvslt k!ss (bvsub %s %s))) (= (s.at %s k!ss) (s.at %s (bvadd %s k!ss)))) :pattern ((s.at %s k!ss))))",
		hi.S, lo.S, r.S, s.S, lo.S, r.S)
	st.assume(smt.Term{S: body, Sort: smt.Bool})
	return r
}

func (x *exec) lookup(st *State, fr *Frame, ins *ssa.Lookup) Value {
	e := x.e
	xv := x.val(st, fr, ins.X)
	switch xt := types.Unalias(ins.X.Type()).Underlying().(type) {
	case *types.Basic: // string index
		idx := asInt64(e, x.val(st, fr, ins.Index))
		x.safe(st, ins, "index", smt.And(smt.BVCmp("bvsle", zero64, idx), smt.BVCmp("bvslt", idx, e.strLen(xv.one()))))
		return scalar(ins.Type(), e.strAt(xv.one(), idx))
	case *types.Map:
		return x.mapLookup(st, fr, ins, xv, xt)
	}
	unsupported("lookup on %v", ins.X.Type())
	return Value{}
}

// --- maps: has/val arrays per map object, for keys with a single leaf ---

func (x *exec) mapKeys(mt *types.Map) (hasKey string, ksort smt.Sort, vleaves []Leaf, vprefix string) {
	e := x.e
	kl := e.leaves(mt.Key())
	if len(kl) != 1 {
		unsupported("map with composite key %v", mt.Key())
	}
	base := "map<" + typeKey(mt.Key()) + "," + typeKey(mt.Elem()) + ">"
	return base + ".has", kl[0].Sort, e.leaves(mt.Elem()), base + ".val"
}

func (x *exec) initMap(st *State, r smt.Term, t types.Type) {
	e := x.e
	mt := types.Unalias(t).Underlying().(*types.Map)
	hk, ks, _, _ := x.mapKeys(mt)
	arr := e.heapArr(st, hk, smt.Ref, smt.ArrayOf(ks, smt.Bool))
	e.setHeapArr(st, hk, smt.Store(arr, r, e.zeroLeaf(smt.ArrayOf(ks, smt.Bool))))
}

func (x *exec) mapLookup(st *State, fr *Frame, ins *ssa.Lookup, m Value, mt *types.Map) Value {
	e := x.e
	hk, ks, vls, vp := x.mapKeys(mt)
	k := e.leavesOf(x.val(st, fr, ins.Index))[0]
	has := smt.Select(smt.Select(e.heapArr(st, hk, smt.Ref, smt.ArrayOf(ks, smt.Bool)), m.one()), k)
	has = e.ctx.Name("has", smt.And(smt.Not(smt.Eq(m.one(), e.null())), has))
	out := Value{T: mt.Elem()}
	for _, l := range vls {
		arr := e.heapArr(st, vp+l.Path, smt.Ref, smt.ArrayOf(ks, l.Sort))
		out.L = append(out.L, e.ctx.Name("mv", smt.Ite(has, smt.Select(smt.Select(arr, m.one()), k), e.zeroLeaf(l.Sort))))
	}
	e.assumeValidUnder(st, has, out)
	for i, l := range vls {
		if l.Sort == smt.Ref {
			key := vp + l.Path
			if arr := e.heapArr(st, key, smt.Ref, smt.ArrayOf(ks, l.Sort)); e.unchangedSinceEntry(st, key, arr) {
				// the map's values have not been written since the unit started
				st.assume(smt.Implies(smt.And(has, smt.IntBin("<=", e.stamp(m.one()), e.curUnit.entry.clock)), smt.IntBin("<=", e.stamp(out.L[i]), e.curUnit.entry.clock)))
			}
		}
	}
	if ins.CommaOk {
		return Value{T: ins.Type(), Elems: []Value{out, scalar(types.Typ[types.Bool], has)}}
	}
	return out
}

func (x *exec) mapUpdate(st *State, fr *Frame, ins *ssa.MapUpdate) {
	e := x.e
	m := x.val(st, fr, ins.Map)
	mt := types.Unalias(ins.Map.Type()).Underlying().(*types.Map)
	x.safe(st, ins, "nilmap", smt.Not(smt.Eq(m.one(), e.null())))
	hk, ks, vls, vp := x.mapKeys(mt)
	k := e.leavesOf(x.val(st, fr, ins.Key))[0]
	v := e.leavesOf(x.val(st, fr, ins.Value))
	harr := e.heapArr(st, hk, smt.Ref, smt.ArrayOf(ks, smt.Bool))
	e.setHeapArr(st, hk, smt.Store(harr, m.one(), smt.Store(smt.Select(harr, m.one()), k, smt.True)))
	for i, l := range vls {
		arr := e.heapArr(st, vp+l.Path, smt.Ref, smt.ArrayOf(ks, l.Sort))
		e.setHeapArr(st, vp+l.Path, smt.Store(arr, m.one(), smt.Store(smt.Select(arr, m.one()), k, v[i])))
	}
}
