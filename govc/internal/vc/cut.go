package vc

import (
	"fmt"
	"go/types"
	"sort"

	"golang.org/x/tools/go/ssa"
	"govc/internal/smt"
	"govc/internal/spec"
)

// Path joins ("cutafter callee#n" + "invariant e" lines).
//
// A function whose paths multiply (k early-exit tests in sequence followed by a long tail) is cut after a named call: every
// path that reaches the cut proves the cut invariants and ends there; the code after the cut is explored once, starting from
// an arbitrary state that satisfies the invariants - every heap location, every local variable, every SSA register and the
// call trace are forgotten, exactly as at a loop head whose body may write anything. This is sound for the same reason a loop
// cut is: the state the tail starts from over-approximates the state of every path that arrives (each of them satisfies
// the invariants, and nothing else is assumed about them). Only parameters keep their values (they are immutable SSA
// values), and old() keeps denoting the entry state of the function.

// cutSpecFor returns the cut clause placed after this call of the unit function, if any.
func (x *exec) cutSpecFor(fr *Frame, ins ssa.Instruction, ci calleeInfo) *spec.CallSite {
	if !fr.isUnit || x.unit == nil || x.unit.Spec == nil || len(x.unit.Spec.Cuts) == 0 {
		return nil
	}
	for _, cs := range x.unit.Spec.Cuts {
		if x.resolveCalleeName(x.unit.Spec.Pkg, cs.Callee) == ci.key && x.callOrdinal(ins, ci.key) == cs.Ordinal {
			return cs
		}
	}
	return nil
}

// cutAfter is the continuation of a call that carries a cut clause.
func (x *exec) cutAfter(st *State, fr *Frame, ins ssa.Instruction, cs *spec.CallSite, rets []Value, k cont) {
	e := x.e
	u := x.unit
	if !u.Spec.ModAll {
		unsupported("cutafter needs \"modifies *\" on the unit")
	}
	if len(st.defers[fr]) > 0 {
		unsupported("cutafter with deferred calls pending")
	}
	name := fmt.Sprintf("%s#%d", shortKey(x.resolveCalleeName(u.Spec.Pkg, cs.Callee)), cs.Ordinal)
	if x.sawCut == nil {
		x.sawCut = map[*spec.CallSite]bool{}
	}
	// 1. every arriving path proves the invariants
	env := x.unitEnv(st, fr)
	for i, cl := range cs.Asserts {
		g := env.evalGoal(cl.Expr)
		e.obligation(st, "cut", name+":"+clauseName(cl, i), cl.Tag, cl.Text, cl.Pos.String(), g)
	}
	if x.sawCut[cs] {
		return // the tail is explored from the generalised state of the first arrival
	}
	x.sawCut[cs] = true
	e.note("%s: paths joined after %s; the code after it is verified from an arbitrary state satisfying the cut invariants", u.Name, name)

	// 2. generalise: forget the heap (including the cells of captured locals, whose addresses are kept)
	saved := st.localCells
	st.localCells = nil
	e.havocAll(st)
	st.localCells = saved
	// the path condition goes back to what held at entry (preconditions, validity of parameters)
	st.pc = append([]smt.Term(nil), u.entry.pc...)
	st.pcSeen = map[string]bool{}
	for _, t := range st.pc {
		st.pcSeen[t.S] = true
	}
	clk := e.ctx.Fresh("clkcut", smt.Int)
	st.assume(smt.IntBin(">=", clk, u.entry.clock))
	st.clock = clk
	st.privRefs, st.nonNull, st.arrLen, st.measure, st.ghostLocals = nil, nil, nil, nil, nil
	// addresses of escaping locals stay what they are: distinct non-nil objects allocated before now
	var addrs []smt.Term
	seenAddr := map[string]bool{}
	keepAddr := func(t smt.Term) {
		if t.Sort == smt.Ref && t.S != e.null().S && !seenAddr[t.S] {
			seenAddr[t.S] = true
			addrs = append(addrs, t)
		}
	}
	for _, k := range sortedKeys(st.localCells) {
		for _, r := range st.localCells[k] {
			keepAddr(r)
		}
	}
	// local variables and registers take arbitrary values of their types
	var las []*ssa.Alloc
	for a := range st.locals {
		las = append(las, a)
	}
	sort.Slice(las, func(i, j int) bool { return las[i].Pos() < las[j].Pos() })
	for _, a := range las {
		if paramSpill(a) != nil {
			continue // holds a parameter and is never assigned again: the same value on every path
		}
		if cur := st.locals[a]; cur.P != nil {
			unsupported("cutafter: local %s holds a static pointer", a.Comment)
		}
		nv := e.fresh("cv_"+allocHint(a), a.Type().(*types.Pointer).Elem())
		e.assumeValid(st, nv)
		st.locals[a] = nv
	}
	var rvs []ssa.Value
	for v := range st.regs {
		rvs = append(rvs, v)
	}
	sort.Slice(rvs, func(i, j int) bool {
		if rvs[i].Pos() != rvs[j].Pos() {
			return rvs[i].Pos() < rvs[j].Pos()
		}
		return rvs[i].Name() < rvs[j].Name()
	})
	for _, v := range rvs {
		cur := st.regs[v]
		switch v.(type) {
		case *ssa.Parameter, *ssa.FreeVar, *ssa.Alloc, *ssa.MakeClosure, *ssa.Function, *ssa.Const, *ssa.Global:
			if al, isAlloc := v.(*ssa.Alloc); isAlloc && cur.P == nil && len(cur.L) == 1 {
				keepAddr(cur.L[0])
				if p := paramSpill(al); p != nil && al.Heap {
					// the heap cell of a captured parameter keeps the parameter's value
					if pv, ok := st.regs[p]; ok {
						e.storePtr(st, &Ptr{Kind: PtrHeap, Base: cur.L[0], Root: al.Type().(*types.Pointer).Elem()}, pv)
					}
				}
			}
			if _, isClo := v.(*ssa.MakeClosure); isClo && cur.P == nil && len(cur.L) >= 1 {
				keepAddr(cur.L[0])
			}
			continue
		}
		if cur.P != nil || cur.Elems != nil && hasStatic(cur) {
			continue // static addresses (of locals, fields of locals) do not depend on the path
		}
		if v.Parent() != fr.fn {
			continue
		}
		nv := x.freshLike(st, "cr_"+v.Name(), cur)
		st.regs[v] = nv
	}
	for i, a := range addrs {
		st.assume(smt.Not(smt.Eq(a, e.null())))
		st.assume(smt.IntBin("<=", e.stamp(a), st.clock))
		for _, b := range addrs[:i] {
			st.assume(smt.Not(smt.Eq(a, b)))
		}
	}
	// the trace restarts: counts of earlier calls are unknown numbers the invariants may pin down
	st.trace = nil
	st.callBase = map[string]smt.Term{}
	st.lazyBase = true
	st.unknownCalls = false

	// 3. assume the invariants and go on with arbitrary results of the call
	env = x.unitEnv(st, fr)
	for _, cl := range cs.Asserts {
		// an invariant about the arguments or results of a call made before the cut is an obligation of the arriving paths
		// only: the trace restarts here, so the tail assumes nothing from it
		if t, ok := evalBoolIfEvents(env, cl.Expr); ok {
			st.assume(t)
		}
	}
	var nrets []Value
	for i, r := range rets {
		nrets = append(nrets, x.freshLike(st, fmt.Sprintf("cret%d", i), r))
	}
	k(st, nrets)
}

func hasStatic(v Value) bool {
	if v.P != nil {
		return true
	}
	for _, el := range v.Elems {
		if hasStatic(el) {
			return true
		}
	}
	return false
}

// freshLike returns an arbitrary value of the same shape and type as v.
func (x *exec) freshLike(st *State, hint string, v Value) Value {
	e := x.e
	if v.Elems != nil {
		out := Value{T: v.T}
		for i, el := range v.Elems {
			out.Elems = append(out.Elems, x.freshLike(st, fmt.Sprintf("%s_%d", hint, i), el))
		}
		return out
	}
	if v.P != nil || v.T == nil {
		return v
	}
	nv := e.fresh(hint, v.T)
	if len(nv.L) != len(v.L) {
		// a value whose leaves do not follow its static type (e.g. a func value with closure identity): keep the sorts
		nv = Value{T: v.T}
		for i, l := range v.L {
			nv.L = append(nv.L, e.ctx.Fresh(fmt.Sprintf("%s_%d", hint, i), l.Sort))
		}
		return nv
	}
	e.assumeValid(st, nv)
	return nv
}

// paramSpill returns the parameter a local variable was initialised from when that is the only assignment it ever gets
// (go/ssa's naive form keeps every parameter in such a cell).
func paramSpill(a *ssa.Alloc) *ssa.Parameter {
	st := storesTo(a)
	if len(st) != 1 {
		return nil
	}
	p, _ := st[0].(*ssa.Parameter)
	return p
}

func evalBoolIfEvents(env *Env, ex spec.Expr) (t smt.Term, ok bool) {
	defer func() {
		if r := recover(); r != nil {
			if _, is := r.(noSuchEvent); is {
				ok = false
				return
			}
			panic(r)
		}
	}()
	return env.evalBool(ex), true
}
