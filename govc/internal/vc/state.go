package vc

import (
	"runtime/debug"
	"os"
	"fmt"
	"go/token"
	"go/types"
	"sort"

	"golang.org/x/tools/go/ssa"
	"govc/internal/smt"
	"govc/internal/spec"
)

// Event is one call made by the unit under verification (ghost trace).
type Event struct {
	Key   string   // canonical callee key
	Kind  string   // "call", "go", "defer"
	Args  []Value  // receiver first for methods
	Pre   *State   // state just before the call (shared, never mutated afterwards)
	Seq   int      // order stamp on this path
	Site  ssa.Instruction
	Cond  smt.Term // extra condition under which the event happened (true)
	Names []string // callee parameter names aligned with Args (may be empty)
	Rets  []Value  // results, when known (contract calls, dyncalls)
	Quiet bool     // pure / silent / inlined: not counted by nevents()
}

// State is one symbolic path state.
type State struct {
	locals   map[*ssa.Alloc]Value
	regs     map[ssa.Value]Value
	heap     map[string]smt.Term
	gen      int // generation of the default heap arrays
	globals  map[*ssa.Global]Value
	pc       []smt.Term
	clock    smt.Term
	trace    []*Event
	callBase map[string]smt.Term // symbolic number of earlier calls (after loop cuts), per key
	unknownCalls bool              // some loop cut havocked the trace for all keys
	lazyBase     bool              // after a path join: the number of earlier calls is an unknown per key, created on first use
	tiAllocs     []tiAlloc         // objects of a type with a declared invariant allocated on this path
	measure  map[*ssa.BasicBlock]smt.Term
	ghostLocals map[string]Value
	privRefs map[string]bool // refs allocated on this path and not yet escaped
	nonNull  map[string]bool
	arrLen   map[string]int64
	havocked []havocMark
	defers   map[*Frame][]deferred
	pcSeen   map[string]bool
	localCells map[string][]smt.Term // heap key -> refs of local variables of the running frames (escaping Allocs)
	atLock   *State // the state right after the last acquisition of a monitor lock (nil: none acquired yet)
	factBase int    // snapshots: length of pc when the snapshot was taken; what follows are facts about values of that state learnt later
}

func (st *State) clone() *State {
	n := &State{
		locals: make(map[*ssa.Alloc]Value, len(st.locals)),
		regs:   make(map[ssa.Value]Value, len(st.regs)),
		heap:   make(map[string]smt.Term, len(st.heap)),
		gen:    st.gen,
		pc:     append([]smt.Term(nil), st.pc...),
		clock:  st.clock,
		trace:  append([]*Event(nil), st.trace...),
		unknownCalls: st.unknownCalls,
		lazyBase: st.lazyBase,
		tiAllocs: append([]tiAlloc(nil), st.tiAllocs...),
		atLock: st.atLock,
	}
	for k, v := range st.locals {
		n.locals[k] = v
	}
	for k, v := range st.regs {
		n.regs[k] = v
	}
	for k, v := range st.heap {
		n.heap[k] = v
	}
	if st.globals != nil {
		n.globals = make(map[*ssa.Global]Value, len(st.globals))
		for k, v := range st.globals {
			n.globals[k] = v
		}
	}
	if st.callBase != nil {
		n.callBase = make(map[string]smt.Term, len(st.callBase))
		for k, v := range st.callBase {
			n.callBase[k] = v
		}
	}
	if st.measure != nil {
		n.measure = make(map[*ssa.BasicBlock]smt.Term, len(st.measure))
		for k, v := range st.measure {
			n.measure[k] = v
		}
	}
	if st.ghostLocals != nil {
		n.ghostLocals = make(map[string]Value, len(st.ghostLocals))
		for k, v := range st.ghostLocals {
			n.ghostLocals[k] = v
		}
	}
	if st.privRefs != nil {
		n.privRefs = make(map[string]bool, len(st.privRefs))
		for k, v := range st.privRefs {
			n.privRefs[k] = v
		}
	}
	if st.nonNull != nil {
		n.nonNull = make(map[string]bool, len(st.nonNull))
		for k, v := range st.nonNull {
			n.nonNull[k] = v
		}
	}
	if st.arrLen != nil {
		n.arrLen = make(map[string]int64, len(st.arrLen))
		for k, v := range st.arrLen {
			n.arrLen[k] = v
		}
	}
	n.havocked = append([]havocMark(nil), st.havocked...)
	if st.localCells != nil {
		n.localCells = make(map[string][]smt.Term, len(st.localCells))
		for k, v := range st.localCells {
			n.localCells[k] = append([]smt.Term(nil), v...)
		}
	}
	if st.pcSeen != nil {
		n.pcSeen = make(map[string]bool, len(st.pcSeen))
		for k, v := range st.pcSeen {
			n.pcSeen[k] = v
		}
	}
	if st.defers != nil {
		n.defers = make(map[*Frame][]deferred, len(st.defers))
		for k, v := range st.defers {
			n.defers[k] = append([]deferred(nil), v...)
		}
	}
	return n
}

// snapshot returns an immutable view used as the "pre" state of events.
func (st *State) snapshot() *State {
	n := st.clone()
	n.factBase = len(n.pc)
	return n
}

func (st *State) assume(t smt.Term) {
	if t.IsTrue() {
		return
	}
	if st.pcSeen == nil {
		st.pcSeen = map[string]bool{}
	}
	if st.pcSeen[t.S] {
		return
	}
	st.pcSeen[t.S] = true
	st.pc = append(st.pc, t)
}

// Obligation is one named proof obligation instance (one path).
type Obligation struct {
	Unit  string
	Name  string // full name: unit/kind:detail
	Kind  string // post, pre, safe, inv-entry, inv-keep, callsite, frame, cover, canary, decreases, lemma
	Tag   string // property tag "C14.kind" or ""
	Text  string // clause text
	Pos   string
	PC    []smt.Term
	Goal  smt.Term
	Cover bool // expectation is "sat" (reachability), not "unsat"
	Canary bool
	Model []string // terms whose values are of interest in a counterexample
	ModelTerms []ModelTerm // path-specific terms (let macros, results) to print from a counterexample
}

// heapKey describes one heap array.
type heapKey struct {
	Key  string
	Idx  smt.Sort
	Elem smt.Sort
}

func (e *Engine) regKey(key string, idx, el smt.Sort) {
	if _, ok := e.heapKeys[key]; !ok {
		e.heapKeys[key] = heapKey{key, idx, el}
	}
}

// heapArr returns the current array for key.
func (e *Engine) heapArr(st *State, key string, idx, el smt.Sort) smt.Term {
	e.regKey(key, idx, el)
	if t, ok := st.heap[key]; ok {
		return t
	}
	if st.gen != 0 && e.w.fieldImmutable(key) {
		// never assigned after construction: the same array in every generation
		return e.ctx.Const(fmt.Sprintf("H0<%s>", key), smt.ArrayOf(idx, el))
	}
	// a key first touched after a prefix havoc must not see the pre-havoc default
	for i := len(st.havocked) - 1; i >= 0; i-- {
		p := st.havocked[i].prefix
		if key == p || len(key) > len(p) && key[:len(p)] == p && (key[len(p)] == '.' || key[len(p)] == '>') {
			if st.havocked[i].framed && e.x != nil && e.x.unit != nil && e.x.unit.entry != nil && st != e.x.unit.entry && st.gen == 0 {
				// the array was forgotten by a framed havoc (a loop cut of a unit with a modifies clause) before it was ever
				// touched: it still agrees with the entry state outside the unit's frame
				e.x.framedHavoc(st, e.x.unit, key)
				return st.heap[key]
			}
			return e.ctx.Const(fmt.Sprintf("H%dm%d<%s>", st.gen, st.havocked[i].id, key), smt.ArrayOf(idx, el))
		}
	}
	return e.ctx.Const(fmt.Sprintf("H%d<%s>", st.gen, key), smt.ArrayOf(idx, el))
}

func (e *Engine) setHeapArr(st *State, key string, t smt.Term) {
	st.heap[key] = e.ctx.Name("H<"+key+">", t)
}

// havocAll forgets the whole heap (and mutable globals).
func (e *Engine) havocAll(st *State) {
	e.genCounter++
	// fields that are never assigned after construction keep their arrays; everything else is forgotten
	keep := map[string]smt.Term{}
	for k := range e.heapKeys {
		if e.w.fieldImmutable(k) {
			hk := e.heapKeys[k]
			keep[k] = e.heapArr(st, k, hk.Idx, hk.Elem)
		}
	}
	// local variables held in heap cells (captured by closures) belong to the running function: code that
	// "may modify anything" cannot reach them (no callback runs during the call: non-interference assumption)
	type saved struct {
		key string
		ref smt.Term
		val smt.Term
	}
	var cells []saved
	for _, k := range sortedKeys(st.localCells) {
		hk, ok := e.heapKeys[k]
		if !ok {
			continue
		}
		arr := e.heapArr(st, k, hk.Idx, hk.Elem)
		for _, r := range st.localCells[k] {
			cells = append(cells, saved{k, r, e.ctx.Name("keep", smt.Select(arr, r))})
		}
	}
	st.heap = keep
	st.havocked = nil
	st.gen = e.genCounter
	for _, c := range cells {
		hk := e.heapKeys[c.key]
		arr := e.heapArr(st, c.key, hk.Idx, hk.Elem)
		e.setHeapArr(st, c.key, smt.Store(arr, c.ref, c.val))
	}
	st.globals = nil
	nc := e.ctx.Fresh("clk", smt.Int)
	st.assume(smt.IntBin(">=", nc, st.clock))
	st.clock = nc
}

// objKeyPrefix returns the heap-key prefix for objects of type root.
func objKeyPrefix(root types.Type) string {
	root = types.Unalias(root)
	if _, ok := root.Underlying().(*types.Struct); ok {
		return typeKey(root)
	}
	return "cell<" + typeKey(root) + ">"
}

func memKeyPrefix(elem types.Type) string { return "mem<" + typeKey(elem) + ">" }

// loadPtr reads the value a pointer designates.
func (e *Engine) loadPtr(st *State, p *Ptr) Value {
	prefix, t := e.followPath(p.Root, p.Path)
	switch p.Kind {
	case PtrLocal:
		v, ok := st.locals[p.Alloc]
		if !ok {
			v = e.zero(p.Root)
			st.locals[p.Alloc] = v
		}
		return e.subValue(v, p.Root, p.Path)
	case PtrGlobal:
		v := e.globalValue(st, p.Glob)
		return e.subValue(v, p.Root, p.Path)
	case PtrHeap:
		var ls []smt.Term
		var olds []int
		for i, l := range e.leaves(t) {
			key := objKeyPrefix(p.Root) + prefix + l.Path
			arr := e.heapArr(st, key, smt.Ref, l.Sort)
			ls = append(ls, e.ctx.SelectThrough(arr, p.Base))
			if l.Sort == smt.Ref && e.unchangedSinceEntry(st, key, arr) {
				olds = append(olds, i)
			}
		}
		out := e.named(st, "ld", Value{T: t, L: ls})
		for _, i := range olds {
			// the array has not been written since the unit started: what an object that existed then holds was allocated before
			st.assume(smt.Implies(smt.IntBin("<=", e.stamp(p.Base), e.curUnit.entry.clock), smt.IntBin("<=", e.stamp(out.L[i]), e.curUnit.entry.clock)))
		}
		return out
	case PtrElem:
		var ls []smt.Term
		for _, l := range e.leaves(t) {
			arr := e.heapArr(st, memKeyPrefix(p.Root)+prefix+l.Path, smt.Ref, smt.ArrayOf(bv64, l.Sort))
			ls = append(ls, smt.Select(smt.Select(arr, p.Base), p.Idx))
		}
		return e.named(st, "el", Value{T: t, L: ls})
	}
	panic("bad ptr kind")
}

// unchangedSinceEntry reports whether arr, the current array of a heap key, is still the array of the unit's entry state.
func (e *Engine) unchangedSinceEntry(st *State, key string, arr smt.Term) bool {
	if e.curUnit == nil || e.curUnit.entry == nil || st == e.curUnit.entry {
		return false
	}
	hk, ok := e.heapKeys[key]
	if !ok {
		return false
	}
	return e.heapArr(e.curUnit.entry, key, hk.Idx, hk.Elem).S == arr.S
}

// named gives names to the leaves of a loaded value and records type invariants.
func (e *Engine) named(st *State, hint string, v Value) Value {
	out := Value{T: v.T, L: make([]smt.Term, len(v.L))}
	for i, l := range v.L {
		out.L[i] = e.ctx.Name(hint, l)
		if d := os.Getenv("GOVC_DBG"); d != "" && out.L[i].S == d {
			fmt.Fprintf(os.Stderr, "DBG named %s = %s noname=%d\n%s\n", d, l.S, e.ctx.NoName, debug.Stack())
		}
	}
	e.assumeValid(st, out)
	return out
}

// assumeValid adds the type invariants of a value (slice shape, string length, allocation stamps).
func (e *Engine) assumeValid(st *State, v Value) {
	if len(e.w.TypeInvs) > 0 {
		e.assumeTypeInv(st, v)
	}
	if v.P != nil || v.Elems != nil {
		for _, el := range v.Elems {
			e.assumeValid(st, el)
		}
		return
	}
	ls := e.leaves(v.T)
	for i, l := range ls {
		t := v.L[i]
		switch {
		case l.Sort == smt.Ref:
			if t.S != e.null().S && !st.privRefs[t.S] {
				st.assume(smt.IntBin("<=", e.stamp(t), st.clock))
			}
		case l.Sort == smt.Str:
			n := e.strLen(t)
			st.assume(smt.Eq(smt.Eq(n, smt.BVLit(0, 64)), smt.Eq(t, e.strLit(""))))
			st.assume(smt.And(smt.BVCmp("bvsge", n, smt.BVLit(0, 64)), smt.BVCmp("bvsle", n, smt.BVLit(1<<46, 64))))
		}
		if len(l.Path) >= 4 && l.Path[len(l.Path)-4:] == ".arr" && i+3 < len(ls) && ls[i+3].Path == l.Path[:len(l.Path)-4]+".cap" {
			off, ln, cp := v.L[i+1], v.L[i+2], v.L[i+3]
			z := smt.BVLit(0, 64)
			big := smt.BVLit(1<<46, 64) // no slice is larger than what the allocator can address (elements of at least one byte)
			st.assume(smt.And(
				smt.BVCmp("bvsle", z, off), smt.BVCmp("bvsle", off, big),
				smt.BVCmp("bvsle", z, ln), smt.BVCmp("bvsle", ln, cp), smt.BVCmp("bvsle", cp, big),
				smt.BVCmp("bvsle", z, smt.BVBin("bvadd", off, cp)), smt.BVCmp("bvsle", smt.BVBin("bvadd", off, cp), big),
				smt.Implies(smt.Eq(t, e.null()), smt.Eq(cp, z)),
			))
		}
	}
}

func (e *Engine) stamp(r smt.Term) smt.Term {
	f := e.ctx.Fun("stamp", []smt.Sort{smt.Ref}, smt.Int)
	return smt.App(smt.Int, f, r)
}

// newRef allocates a fresh object reference.
func (e *Engine) newRef(st *State, hint string) smt.Term {
	r := e.ctx.Fresh(hint, smt.Ref)
	nc := e.ctx.Name("clk", smt.IntBin("+", st.clock, smt.IntLit(1)))
	st.assume(smt.Eq(e.stamp(r), nc))
	st.assume(smt.Not(smt.Eq(r, e.null())))
	if e.curUnit != nil && e.curUnit.Spec != nil && len(e.curUnit.Spec.Monitors) > 0 {
		st.assume(smt.Not(smt.App(smt.Bool, e.ctx.Fun("foreign", []smt.Sort{smt.Ref}, smt.Bool), r)))
	}
	st.clock = nc
	return r
}

// subValue extracts the component at path.
func (e *Engine) subValue(v Value, root types.Type, path []int) Value {
	t := root
	lo, hi := 0, len(v.L)
	for _, i := range path {
		st := types.Unalias(t).Underlying().(*types.Struct)
		a, b := e.fieldRange(st, i)
		hi = lo + b
		lo = lo + a
		t = st.Field(i).Type()
	}
	if v.P != nil {
		if len(path) == 0 {
			return v
		}
		panic("subValue of pointer")
	}
	return Value{T: t, L: append([]smt.Term(nil), v.L[lo:hi]...)}
}

// withSub returns v with the component at path replaced by nv.
func (e *Engine) withSub(v Value, root types.Type, path []int, nv Value) Value {
	if len(path) == 0 {
		if nv.P != nil {
			return Value{T: root, P: nv.P}
		}
		return Value{T: root, L: append([]smt.Term(nil), e.leavesOfKeep(nv)...), P: nv.P}
	}
	t := root
	lo := 0
	for _, i := range path {
		st := types.Unalias(t).Underlying().(*types.Struct)
		a, _ := e.fieldRange(st, i)
		lo += a
		t = st.Field(i).Type()
	}
	out := Value{T: root, L: append([]smt.Term(nil), v.L...)}
	nl := e.leavesOf(nv)
	copy(out.L[lo:lo+len(nl)], nl)
	return out
}

func (e *Engine) leavesOfKeep(v Value) []smt.Term {
	if v.P != nil {
		return nil
	}
	return v.L
}

// storePtr writes nv to the location p designates.
func (e *Engine) storePtr(st *State, p *Ptr, nv Value) {
	prefix, t := e.followPath(p.Root, p.Path)
	switch p.Kind {
	case PtrLocal:
		cur, ok := st.locals[p.Alloc]
		if !ok {
			cur = e.zero(p.Root)
		}
		if len(p.Path) == 0 {
			nv.T = p.Root
			st.locals[p.Alloc] = nv
			return
		}
		st.locals[p.Alloc] = e.withSub(cur, p.Root, p.Path, nv)
	case PtrGlobal:
		cur := e.globalValue(st, p.Glob)
		if st.globals == nil {
			st.globals = map[*ssa.Global]Value{}
		}
		st.globals[p.Glob] = e.withSub(cur, p.Root, p.Path, nv)
	case PtrHeap:
		nl := e.leavesOf(nv)
		for i, l := range e.leaves(t) {
			key := objKeyPrefix(p.Root) + prefix + l.Path
			arr := e.heapArr(st, key, smt.Ref, l.Sort)
			e.setHeapArr(st, key, smt.Store(arr, p.Base, nl[i]))
		}
		e.noteEscape(st, nv)
	case PtrElem:
		nl := e.leavesOf(nv)
		for i, l := range e.leaves(t) {
			key := memKeyPrefix(p.Root) + prefix + l.Path
			arr := e.heapArr(st, key, smt.Ref, smt.ArrayOf(bv64, l.Sort))
			inner := smt.Store(smt.Select(arr, p.Base), p.Idx, nl[i])
			e.setHeapArr(st, key, smt.Store(arr, p.Base, inner))
		}
		e.noteEscape(st, nv)
	}
}

func (e *Engine) noteEscape(st *State, v Value) {}

// globalValue returns the current value of a package-level variable.
func (e *Engine) globalValue(st *State, g *ssa.Global) Value {
	if v, ok := st.globals[g]; ok {
		return v
	}
	t := g.Type().(*types.Pointer).Elem()
	immutable := e.immutableGlobal(g)
	v := e.globalByName(st, g.Pkg.Pkg.Path(), g.Name(), t, immutable)
	if immutable {
		e.globalFacts(g, v)
	}
	return v
}

// globalByName builds the symbolic value of a package-level variable from its name.
func (e *Engine) globalByName(st *State, pkgPath, gname string, t types.Type, immutable bool) Value {
	name := pkgPath + "." + gname
	var ls []smt.Term
	for _, l := range e.leaves(t) {
		if immutable {
			ls = append(ls, e.ctx.Const("G<"+name+">"+l.Path, l.Sort))
		} else {
			ls = append(ls, e.ctx.Const(fmt.Sprintf("G%d<%s>%s", st.gen, name, l.Path), l.Sort))
		}
	}
	v := Value{T: t, L: ls}
	if immutable && knownNonNilExternalName(name) {
		e.nonNilFact(name, v)
		if dt := e.w.errorStringType(); dt != nil && v.L[0].Sort == smt.Iface && name != "io.Discard" {
			if !e.dynDone[name] {
				e.dynDone[name] = true
				e.ctx.Axiom(smt.Eq(e.dyn(v.L[0]), e.typeTag(dt)))
			}
		}
	}
	return v
}

// sortedKeys is a helper for deterministic iteration.
func sortedKeys[V any](m map[string]V) []string {
	ks := make([]string, 0, len(m))
	for k := range m {
		ks = append(ks, k)
	}
	sort.Strings(ks)
	return ks
}

func posString(fset *token.FileSet, p token.Pos) string {
	if !p.IsValid() {
		return ""
	}
	ps := fset.Position(p)
	return fmt.Sprintf("%s:%d", ps.Filename, ps.Line)
}

var _ = spec.Pos{}
