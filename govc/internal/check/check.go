// Package check runs the verification of one property and writes evidence.
package check

import (
	"encoding/json"
	"fmt"
	"os"
	"path/filepath"
	"sort"
	"strings"
	"sync"
	"time"

	"govc/internal/load"
	"govc/internal/solve"
	"govc/internal/vc"
)

// Options of a check run.
type Options struct {
	Repo, Specs, Prop, Tier, Evidence, Replays, Known, UnitFilter, ReplayDir, Expected string
	Verbose, KeepFiles, Sweep, Pin                                                      bool
}

// Finding is one entry of the known-findings file.
type Finding struct {
	Property   string `json:"property"`
	Obligation string `json:"obligation"`
	Class      string `json:"class"` // input class K in the spec language ("" = the whole obligation)
	What       string `json:"what"`
	Repro      string `json:"repro,omitempty"`
}

// KnownFile is the known-findings file.
type KnownFile struct {
	Findings []Finding `json:"findings"`
	Fixed    []string  `json:"fixed"`
}

// group is one named obligation (all its path instances).
type group struct {
	Name      string
	Unit      string
	Kind      string
	Tag       string
	Text      string
	Pos       string
	Instances int
	Result    string // discharged, failed
	Backend   string
	Ms        int64
	Detail    string
	Model     string
	File      string
	Known     bool // the K-half of a known finding
	res       *vc.UnitResult
	first     *vc.Obligation
}

func tmpRoot() string {
	base := os.Getenv("TMPDIR")
	if base == "" {
		base = "/var/tmp"
	}
	d, err := os.MkdirTemp(base, "govc-")
	if err != nil {
		d, _ = os.MkdirTemp("", "govc-")
	}
	return d
}

// Run executes the check and returns the process exit code.
func Run(o Options) int {
	t0 := time.Now()
	seed := 0
	fmt.Sscanf(os.Getenv("VERIF_SEED"), "%d", &seed)
	if t := os.Getenv("VERIF_TIER"); t != "" && o.Tier == "" {
		o.Tier = t
	}
	prog, err := load.Load(o.Repo)
	if err != nil {
		fmt.Fprintln(os.Stderr, "govc: cannot load repository:", err)
		return 2
	}
	w, err := vc.NewWorld(prog, o.Specs)
	if err != nil {
		fmt.Fprintln(os.Stderr, "govc: contract files:", err)
		return 2
	}
	var known KnownFile
	if b, err := os.ReadFile(o.Known); err == nil {
		if err := json.Unmarshal(b, &known); err != nil {
			fmt.Fprintln(os.Stderr, "govc: known-findings file:", err)
			return 2
		}
	}
	// input classes of the recorded findings, for every property: a dependency unit may carry a finding that is
	// reported under another property
	classes := map[string][]string{}
	findingProp := map[string]string{}
	for _, f := range known.Findings {
		classes[f.Obligation] = append(classes[f.Obligation], f.Class)
		findingProp[f.Obligation] = f.Property
	}
	units := w.UnitsFor(o.Prop)
	if o.Prop == "C09" && !o.Sweep {
		// C09 (no client input can crash the server): the panic-freedom obligations of every function under contract in
		// the files that handle client input
		units = nil
		for _, u := range w.UnitsFor("") {
			if w.UnitInFiles(u, sweepFiles) {
				units = append(units, u)
			}
		}
	}
	if o.Sweep {
		units = w.SweepUnits(sweepFiles)
	}
	if o.UnitFilter != "" {
		var f []*vc.Unit
		for _, u := range units {
			if strings.Contains(u.Name, o.UnitFilter) {
				f = append(f, u)
			}
		}
		units = f
	}
	tmp := tmpRoot()
	if !o.KeepFiles {
		defer os.RemoveAll(tmp)
	}
	sopt := solve.Options{TmpDir: tmp, BatchMs: 2000, SingleMs: 20000, KeepFiles: o.KeepFiles}
	if o.Tier == "thorough" {
		sopt.BatchMs = 10000
		sopt.SingleMs = 30000
		sopt.AllBackends = true
	}
	if o.KeepFiles {
		fmt.Fprintln(os.Stderr, "govc: SMT files kept in", tmp)
	}

	type unitOut struct {
		res *vc.UnitResult
		sts []solve.Status
		err error
	}
	var outs []unitOut
	isDep := map[string]bool{}      // units verified because a unit of the property uses their contract
	have := map[string]bool{}       // unit keys scheduled
	assumedModels := map[string]bool{} // interface-method contracts used (model contracts, implementations not checked)
	refinedModels := map[string]bool{} // interface-method contracts used and proved for the coupled implementation
	overrideGaps := map[string]string{} // method of an implementing type without contract -> the model contract it escapes
	for _, u := range units {
		have[u.Key] = true
	}
	sem := make(chan struct{}, 12)
	round := units
	units = nil
	for len(round) > 0 {
		base := len(outs)
		outs = append(outs, make([]unitOut, len(round))...)
		var wg sync.WaitGroup
		for i, u := range round {
			wg.Add(1)
			go func(i int, u *vc.Unit) {
				defer wg.Done()
				sem <- struct{}{}
				defer func() { <-sem }()
				res := w.VerifyWith(u, classes)
				outs[base+i].res = res
				if res.Err != "" {
					return
				}
				sts, err := solve.Unit(res, sopt)
				outs[base+i].sts, outs[base+i].err = sts, err
			}(i, u)
		}
		wg.Wait()
		units = append(units, round...)
		var next []*vc.Unit
		if !o.Sweep && o.UnitFilter == "" {
			for i := range round {
				res := outs[base+i].res
				if res == nil {
					continue
				}
				for _, k := range res.UsedContracts {
					if have[k] {
						continue
					}
					have[k] = true
					if du := w.UnitByKey(k); du != nil {
						isDep[du.Name] = true
						next = append(next, du)
					} else if w.ContractKind(k) == "interface-model" {
						// a model contract of an interface method: verified by refinement where an implementing type is
						// coupled with the interface ("represents"), assumed otherwise
						refined := false
						if fs := w.Contracts[k]; fs != nil && fs.Opts["norefine"] != "" {
							assumedModels[k] = true
							continue
						}
						for _, ik := range w.ImplKeys(k) {
							if du := w.UnitByKey(ik); du != nil {
								refined = true
								if !have[ik] {
									have[ik] = true
									isDep[du.Name] = true
									next = append(next, du)
								}
							}
						}
						if refined {
							refinedModels[k] = true
							// the model is established by refinement for the coupled implementation: an implementing type that
							// declares the method itself escapes that proof unless its method is under contract too
							_, un := w.Overrides(k)
							for _, ok := range un {
								overrideGaps[ok] = k
							}
						} else {
							assumedModels[k] = true
						}
					}
				}
			}
		}
		round = next
	}

	// a unit whose contract another unit of this run relies on counts with all its obligations, whatever properties its
	// clauses are tagged with (the caller's proof assumes every one of its postconditions)
	usedByOthers := map[string]bool{}
	for i, uo := range outs {
		if uo.res == nil {
			continue
		}
		for _, k := range uo.res.UsedContracts {
			if k != units[i].Key {
				usedByOthers[k] = true
			}
		}
	}
	var problems []string
	var unitLost []lostUnit
	problems = append(problems, relevantProblems(w, o.Prop)...)
	groups := map[string]*group{}
	var order []string
	var solverMs int64
	var notes, trusted []string
	var functions []string
	vacuous := []string{}
	for i, uo := range outs {
		u := units[i]
		if uo.res == nil {
			continue
		}
		functions = append(functions, u.Name)
		if uo.res.Err != "" {
			if lost := pinnedNamesOf(o, u.Name); len(lost) > 0 && !o.Pin {
				// the unit was verified on the pinned (unchanged) tree and can no longer be processed: every obligation it
				// discharged there is now open. That is reported as a violation of the property (without input), with the
				// engine's reason; a unit that never verified stays an engine problem.
				unitLost = append(unitLost, lostUnit{u.Name, uo.res.Err, lost})
				continue
			}
			problems = append(problems, fmt.Sprintf("%s: %s", u.Name, uo.res.Err))
			continue
		}
		if uo.err != nil {
			problems = append(problems, fmt.Sprintf("%s: %v", u.Name, uo.err))
			continue
		}
		for _, s := range uo.res.StaleCallSites {
			problems = append(problems, fmt.Sprintf("%s: contract clause refers to %s which does not exist in the code", u.Name, s))
		}
		notes = append(notes, uo.res.Notes...)
		trusted = append(trusted, uo.res.Trusted...)
		coverSat := false
		coverSeen := false
		for k, ob := range uo.res.Obligations {
			st := uo.sts[k]
			solverMs += st.Ms
			if ob.Cover {
				if ob.Kind == "cover" {
					coverSeen = true
					if st.Result == "sat" || st.Result == "unknown" || st.Result == "timeout" {
						coverSat = true
					}
				} else if st.Result == "unsat" {
					vacuous = append(vacuous, ob.Name)
				}
				continue
			}
			if o.Prop == "C09" && !o.Sweep {
				// panic-freedom obligations, plus what their proofs lean on inside the same run: the loop invariants of the
				// unit (assumed at every loop head) and every clause of a unit whose contract another unit uses
				if ob.Kind != "safe" && ob.Kind != "decreases" && ob.Kind != "call-pre" && ob.Kind != "inv-entry" && ob.Kind != "inv-keep" && ob.Kind != "cut" && ob.Kind != "typeinv" &&
					!vc.TagHasProp(ob.Tag, "C09") && !usedByOthers[u.Key] {
					continue
				}
			} else if !o.Sweep && !isDep[u.Name] && !usedByOthers[u.Key] && !uo.res.Belongs(ob, o.Prop) {
				continue
			}
			if o.Sweep && ob.Kind != "safe" {
				continue
			}
			g := groups[ob.Name]
			if g == nil {
				g = &group{Name: ob.Name, Unit: ob.Unit, Kind: ob.Kind, Tag: ob.Tag, Text: ob.Text, Pos: ob.Pos, Result: "discharged", res: uo.res, first: ob, Known: ob.Kind == "known"}
				groups[ob.Name] = g
				order = append(order, ob.Name)
			}
			g.Instances++
			g.Ms += st.Ms
			if st.Result == "unsat" {
				if g.Backend == "" || g.Backend == "constant-folding" {
					g.Backend = st.Backend
				}
			} else if g.Result == "discharged" {
				g.Result = "failed"
				g.Backend = st.Backend
				g.Detail = st.Result + " " + st.Output
				g.Model = st.Model
				g.File = st.File
			}
		}
		if coverSeen && !coverSat {
			vacuous = append(vacuous, u.Name+"/cover:return (no return path is reachable: contradictory precondition or assumptions)")
		}
	}
	sort.Strings(order)

	// report
	exit := 0
	var violations, knownLines []string
	obligations, discharged := 0, 0
	var failedGroups, knownGroups []*group
	var perObl []map[string]any
	for _, name := range order {
		g := groups[name]
		if g.Known {
			knownGroups = append(knownGroups, g)
			continue
		}
		obligations++
		if g.Result == "discharged" {
			discharged++
		} else {
			failedGroups = append(failedGroups, g)
		}
		perObl = append(perObl, map[string]any{"name": g.Name, "kind": g.Kind, "tag": g.Tag, "instances": g.Instances, "result": g.Result, "backend": g.Backend, "ms": g.Ms})
		if o.Verbose {
			fmt.Printf("  %-10s %s [%s] %dms x%d %s\n", g.Result, g.Name, g.Backend, g.Ms, g.Instances, g.Detail)
			if g.Model != "" && os.Getenv("GOVC_MODEL") != "" {
				fmt.Println("      clause:", g.Text)
				for _, l := range strings.Split(strings.TrimSpace(g.Model), "\n") {
					fmt.Println("      |", l)
				}
			}
		}
	}
	os.MkdirAll(filepath.Join(o.Replays, o.Prop), 0o755)
	for _, g := range failedGroups {
		path := writeReplay(o, g, "")
		confirmed := tryReplay(o, w, g, path)
		line := fmt.Sprintf("VIOLATION property=%s replay=%s", o.Prop, path)
		if !confirmed {
			line += " obligation=" + strings.ReplaceAll(g.Name, " ", "_") + " no-failing-input-found"
		} else {
			line += " obligation=" + strings.ReplaceAll(g.Name, " ", "_")
		}
		violations = append(violations, line)
	}
	for _, lu := range unitLost {
		g := &group{Name: lu.unit + "/unverifiable", Unit: lu.unit, Kind: "unverifiable", Text: "the function can no longer be brought under its contract: " + lu.reason,
			Detail: "engine: " + lu.reason + "; obligations discharged on the pinned tree and now open: " + strings.Join(lu.names, ", ")}
		path := writeReplay(o, g, "")
		violations = append(violations, fmt.Sprintf("VIOLATION property=%s replay=%s obligation=%s no-failing-input-found", o.Prop, path, strings.ReplaceAll(g.Name, " ", "_")))
		obligations += len(lu.names)
	}
	var knownEv []map[string]any
	for _, g := range knownGroups {
		base := strings.TrimSuffix(g.Name, "|known")
		what := ""
		for _, f := range known.Findings {
			if f.Obligation == base {
				what = f.What
			}
		}
		if fp := findingProp[base]; fp != o.Prop {
			// a dependency unit carries a finding that is recorded and reported under another property
			knownEv = append(knownEv, map[string]any{"obligation": base, "what": what, "solver": g.Detail, "reported_under": fp})
			continue
		}
		if g.Result == "failed" {
			path := writeReplay(o, g, "known")
			knownLines = append(knownLines, fmt.Sprintf("KNOWN-FINDING: property=%s %s [%s]", o.Prop, what, base))
			knownEv = append(knownEv, map[string]any{"obligation": base, "what": what, "solver": g.Detail, "replay": path})
		} else {
			knownEv = append(knownEv, map[string]any{"obligation": base, "what": what, "solver": "the known class now discharges (defect repaired?)"})
		}
	}
	// known findings whose obligation no longer exists: report as problem (stale file)
	for _, f := range known.Findings {
		if f.Property != o.Prop || o.UnitFilter != "" || o.Sweep {
			continue
		}
		if _, ok := groups[f.Obligation+"|known"]; !ok {
			problems = append(problems, fmt.Sprintf("known finding refers to obligation %q which was not generated", f.Obligation))
		}
	}
	for _, v := range vacuous {
		problems = append(problems, "vacuity: "+v)
	}
	// pinned counts
	if !o.Sweep && o.UnitFilter == "" {
		var names []string
		for _, name := range order {
			if g := groups[name]; !g.Known && g.Result == "discharged" {
				names = append(names, name)
			}
		}
		if msg := checkPinned(o, obligations, functions, names); msg != "" {
			if rest, ok := strings.CutPrefix(msg, "functions under contract disappeared: "); ok && !o.Pin {
				// a function (or closure) that verified on the pinned tree no longer exists: what it discharged is open
				for _, fn := range strings.Split(rest, ", ") {
					lost := pinnedNamesOf(o, fn)
					g := &group{Name: fn + "/missing", Unit: fn, Kind: "missing", Text: "the function under contract no longer exists in the tree",
						Detail: "obligations discharged on the pinned tree and now open: " + strings.Join(lost, ", ") + "; contract file problems: " + strings.Join(w.Problems, " | ")}
					path := writeReplay(o, g, "")
					violations = append(violations, fmt.Sprintf("VIOLATION property=%s replay=%s obligation=%s no-failing-input-found", o.Prop, path, strings.ReplaceAll(g.Name, " ", "_")))
				}
			} else {
				problems = append(problems, msg)
			}
		}
	}
	if !o.Sweep && o.UnitFilter == "" {
		var gaps []string
		for k := range overrideGaps {
			gaps = append(gaps, k)
		}
		sort.Strings(gaps)
		for _, k := range gaps {
			g := &group{Name: vc.ShortKey(k) + "/uncontracted-override", Unit: vc.ShortKey(k), Kind: "override",
				Text: "a type implementing the interface declares this method itself and has no contract: the model contract " + vc.ShortKey(overrideGaps[k]) + ", which callers of this run rely on and which is proved for the coupled implementation only, is not established for it",
				Detail: "no contract for " + k}
			path := writeReplay(o, g, "")
			violations = append(violations, fmt.Sprintf("VIOLATION property=%s replay=%s obligation=%s no-failing-input-found", o.Prop, path, strings.ReplaceAll(g.Name, " ", "_")))
		}
	}
	if obligations == 0 && len(problems) == 0 {
		problems = append(problems, "no obligations were generated for this property")
	}
	if o.Verbose {
		for _, n := range dedup(notes) {
			fmt.Println("  note:", n)
		}
	}
	for _, l := range knownLines {
		fmt.Println(l)
	}
	for _, v := range violations {
		fmt.Println(v)
		exit = 1
	}
	for _, p := range problems {
		fmt.Println("ENGINE-PROBLEM:", p)
		if exit == 0 {
			exit = 2
		}
	}
	wall := time.Since(t0).Seconds()
	fmt.Printf("property %s tier %s: %d obligations, %d discharged, %d failed, %d known-finding halves, %d functions, %.1fs\n",
		o.Prop, o.Tier, obligations, discharged, len(failedGroups), len(knownGroups), len(functions), wall)

	if o.Evidence != "" {
		var models, deps []string
		for k := range assumedModels {
			models = append(models, vc.ShortKey(k))
		}
		sort.Strings(models)
		for k := range refinedModels {
			notes = append(notes, "interface model contract proved for its coupled implementation (refinement): "+vc.ShortKey(k))
		}
		for k := range isDep {
			deps = append(deps, k)
		}
		sort.Strings(deps)
		writeEvidence(o, seed, wall, obligations, discharged, len(violations), functions, perObl, knownEv, dedup(notes), dedup(trusted), problems, float64(solverMs)/1000, groups, order, models, deps)
	}
	return exit
}

func dedup(in []string) []string {
	seen := map[string]bool{}
	var out []string
	for _, s := range in {
		if !seen[s] {
			seen[s] = true
			out = append(out, s)
		}
	}
	sort.Strings(out)
	return out
}

func relevantProblems(w *vc.World, prop string) []string {
	return append([]string(nil), w.Problems...)
}

var sweepFiles = []string{
	"engine/socket.go", "engine/server.go", "engine/base-server.go",
	"transports/polling.go", "transports/polling-jsonp.go", "transports/websocket.go", "transports/webtransport.go", "transports/transport.go",
	"webtransport/conn.go", "webtransport/prepared.go", "types/http-context.go", "utils/parameter-bag.go", "types/cors.go",
}

func writeReplay(o Options, g *group, kind string) string {
	name := strings.NewReplacer("/", "_", " ", "_", "(", "", ")", "", "*", "p", ":", "_", "#", "_", "|", "_", "<", "_", ">", "_", "\"", "", "$", "_").Replace(g.Name)
	if len(name) > 160 {
		name = name[:160]
	}
	path := filepath.Join(o.Replays, o.Prop, name+".json")
	os.MkdirAll(filepath.Dir(path), 0o755)
	smtText := ""
	if g.File != "" {
		if b, err := os.ReadFile(g.File); err == nil {
			smtText = string(b)
			if len(smtText) > 400000 {
				smtText = smtText[:400000] + "\n; truncated"
			}
		}
	}
	rec := map[string]any{
		"property": o.Prop, "obligation": g.Name, "kind": g.Kind, "tag": g.Tag, "clause": g.Text, "contract_pos": g.Pos,
		"function": g.Unit, "solver_output": g.Detail, "model": g.Model, "smt": smtText, "known_finding": kind == "known",
		"replayed_on_real_code": false,
	}
	b, _ := json.MarshalIndent(rec, "", " ")
	os.WriteFile(path, b, 0o644)
	return path
}

type lostUnit struct {
	unit, reason string
	names        []string
}

// pinnedNamesOf lists the obligations of a unit that were discharged when the property was last pinned.
func pinnedNamesOf(o Options, unit string) []string {
	b, err := os.ReadFile(o.Expected)
	if err != nil {
		return nil
	}
	pinned := map[string]map[string]any{}
	if json.Unmarshal(b, &pinned) != nil {
		return nil
	}
	p, ok := pinned[o.Prop]
	if !ok {
		return nil
	}
	var out []string
	if nl, ok := p["names"].([]any); ok {
		for _, n := range nl {
			if s, ok := n.(string); ok && strings.HasPrefix(s, unit+"/") {
				out = append(out, s)
			}
		}
	}
	return out
}

func checkPinned(o Options, obligations int, functions []string, names []string) string {
	b, err := os.ReadFile(o.Expected)
	pinned := map[string]map[string]any{}
	if err == nil {
		json.Unmarshal(b, &pinned)
	}
	if o.Pin {
		pinned[o.Prop] = map[string]any{"obligations": obligations, "functions": functions, "names": names}
		nb, _ := json.MarshalIndent(pinned, "", " ")
		os.WriteFile(o.Expected, nb, 0o644)
		return ""
	}
	p, ok := pinned[o.Prop]
	if !ok {
		return ""
	}
	want := 0
	if f, ok := p["obligations"].(float64); ok {
		want = int(f)
	}
	// functions that disappeared are reported on their own
	have := map[string]bool{}
	for _, f := range functions {
		have[f] = true
	}
	var missing []string
	if fl, ok := p["functions"].([]any); ok {
		for _, f := range fl {
			if s, ok := f.(string); ok && !have[s] {
				missing = append(missing, s)
			}
		}
	}
	if len(missing) > 0 {
		return fmt.Sprintf("functions under contract disappeared: %s", strings.Join(missing, ", "))
	}
	if obligations < want*8/10 {
		return fmt.Sprintf("only %d obligations generated, %d pinned for the unchanged tree (vacuity guard)", obligations, want)
	}
	return ""
}
