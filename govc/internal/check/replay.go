package check

import (
	"encoding/json"
	"fmt"
	"os"
	"os/exec"
	"path/filepath"
	"regexp"
	"strings"
	"time"

	"govc/internal/vc"
)

// A replay driver is an in-package Go test (a file under /verif/replay) that rebuilds the inputs of a real function
// from the values of a solver model, runs the real function of the tree under check, and compares what it does with an
// oracle written independently of the code. It prints one line:
//
//	REPLAY-CONFIRMED: <what the real code did, what the oracle expects>
//	REPLAY-NOT-REPRODUCED: <why>
//	REPLAY-NOT-REPLAYABLE: <why>          (e.g. the model asks for a gigabyte payload)
//
// drivers.json maps unit-name patterns to drivers.
type driver struct {
	Unit   string `json:"unit"`    // regular expression on the unit name
	Pkg    string `json:"pkg"`     // package directory relative to the repository
	File   string `json:"file"`    // test file under the replay directory
	Test   string `json:"test"`    // test function to run
	Helper string `json:"helper"`  // optional second file injected with it
}

func loadDrivers(dir string) []driver {
	b, err := os.ReadFile(filepath.Join(dir, "drivers.json"))
	if err != nil {
		return nil
	}
	var ds []driver
	json.Unmarshal(b, &ds)
	return ds
}

// modelValues parses the "label = value" lines of a counterexample into a map; bit-vector literals become decimal
// strings (two's complement for 64-bit values), booleans "true"/"false".
func modelValues(model string) map[string]string {
	out := map[string]string{}
	for _, l := range strings.Split(model, "\n") {
		i := strings.Index(l, " = ")
		if i < 0 {
			continue
		}
		k, v := strings.TrimSpace(l[:i]), strings.TrimSpace(l[i+3:])
		switch {
		case strings.HasPrefix(v, "#x"):
			var u uint64
			fmt.Sscanf(v[2:], "%x", &u)
			bits := (len(v) - 2) * 4
			if bits == 64 {
				v = fmt.Sprintf("%d", int64(u))
			} else {
				v = fmt.Sprintf("%d", u)
			}
		case strings.HasPrefix(v, "#b"):
			var u uint64
			fmt.Sscanf(v[2:], "%b", &u)
			v = fmt.Sprintf("%d", u)
		}
		out[k] = v
	}
	return out
}

// replay tries to reproduce a failed obligation on the real code. It returns true when the driver confirmed a deviation
// of the real code from the oracle on the model's input.
func replay(o Options, w *vc.World, g *group, path string) bool {
	note := func(status, detail string) {
		b, err := os.ReadFile(path)
		if err != nil {
			return
		}
		rec := map[string]any{}
		if json.Unmarshal(b, &rec) != nil {
			return
		}
		rec["replay_status"] = status
		rec["replay_output"] = detail
		rec["replayed_on_real_code"] = status == "confirmed"
		nb, _ := json.MarshalIndent(rec, "", " ")
		os.WriteFile(path, nb, 0o644)
	}
	if g.Model == "" || strings.HasPrefix(g.Model, "model extraction failed") {
		note("no-model", "the solver produced no model for this obligation ("+g.Detail+")")
		return false
	}
	var d *driver
	for _, cand := range loadDrivers(o.ReplayDir) {
		if re, err := regexp.Compile(cand.Unit); err == nil && re.MatchString(g.Unit) {
			c := cand
			d = &c
			break
		}
	}
	if d == nil {
		note("no-driver", "no replay driver is registered for "+g.Unit)
		return false
	}
	tmp, err := os.MkdirTemp(tmpBase(), "govc-replay-")
	if err != nil {
		note("error", err.Error())
		return false
	}
	defer os.RemoveAll(tmp)
	in := map[string]any{"unit": g.Unit, "obligation": g.Name, "tag": g.Tag, "clause": g.Text, "values": modelValues(g.Model)}
	ib, _ := json.MarshalIndent(in, "", " ")
	inFile := filepath.Join(tmp, "input.json")
	os.WriteFile(inFile, ib, 0o644)
	repl := map[string]string{}
	for _, f := range []string{d.File, d.Helper} {
		if f == "" {
			continue
		}
		src, err := filepath.Abs(filepath.Join(o.ReplayDir, f))
		if err != nil {
			continue
		}
		repl[filepath.Join(o.Repo, d.Pkg, "zz_govc_replay_"+filepath.Base(f))] = src
	}
	ov, _ := json.Marshal(map[string]any{"Replace": repl})
	ovFile := filepath.Join(tmp, "overlay.json")
	os.WriteFile(ovFile, ov, 0o644)
	cmd := exec.Command("go", "test", "-overlay", ovFile, "-vet=off", "-count=1", "-timeout", "60s", "-run", "^"+d.Test+"$", "-v", "./"+d.Pkg+"/")
	cmd.Dir = o.Repo
	cmd.Env = append(os.Environ(), "GOFLAGS=-mod=mod", "GOPROXY=off", "GOVC_REPLAY_INPUT="+inFile)
	done := make(chan struct{})
	var out []byte
	go func() { out, _ = cmd.CombinedOutput(); close(done) }()
	select {
	case <-done:
	case <-time.After(150 * time.Second):
		if cmd.Process != nil {
			cmd.Process.Kill()
		}
		note("error", "replay driver timed out")
		return false
	}
	text := string(out)
	line := ""
	for _, l := range strings.Split(text, "\n") {
		if i := strings.Index(l, "REPLAY-"); i >= 0 {
			line = strings.TrimSpace(l[i:])
		}
	}
	if len(text) > 6000 {
		text = text[len(text)-6000:]
	}
	switch {
	case strings.HasPrefix(line, "REPLAY-CONFIRMED"):
		note("confirmed", line+"\n--- driver output ---\n"+text)
		// keep the input next to the replay record so that the replay can be repeated by hand
		os.WriteFile(strings.TrimSuffix(path, ".json")+".input.json", ib, 0o644)
		return true
	case strings.HasPrefix(line, "REPLAY-NOT-REPRODUCED"), strings.HasPrefix(line, "REPLAY-NOT-REPLAYABLE"):
		note("not-reproduced", line+"\n--- driver output ---\n"+text)
	default:
		note("error", "driver printed no verdict\n"+text)
	}
	return false
}

func tmpBase() string {
	if b := os.Getenv("TMPDIR"); b != "" {
		return b
	}
	return "/var/tmp"
}
