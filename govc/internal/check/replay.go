package check

import "govc/internal/vc"

// replay tries to reproduce a failed obligation on the real code; drivers are added per function group.
func replay(o Options, w *vc.World, g *group, path string) bool { return false }
