package check

import (
	"encoding/json"
	"fmt"
	"os"
	"path/filepath"
	"strings"

	"govc/internal/vc"
)

var standingAssumptions = []string{
	"sequential single-call reasoning: no interference from other goroutines; sync/atomic fields are read and written as plain fields",
	"Emit (and every other call the contracts mark noeffect) runs no code that changes verified state (no re-entrant interference)",
	"partial correctness only: termination is not proved except where a 'decreases' obligation is listed",
	"pointer parameters and pointers loaded from the heap designate whole allocated objects (no interior pointers escape into the heap)",
	"go statements: the spawned call is recorded, its body is not executed at the spawn point; channel operations on Conn.mu are lock acquire/release with no effect on verified state; recover blocks are ignored",
	"strings are an uninterpreted sort with length, byte-at, concat and substring functions; only the axioms emitted with each use are known to the solver",
	"package-level variables that are assigned only in init (sentinel errors, the error table) keep their initial value; external package-level variables are constants",
	"govc itself (SSA to SMT translation) and the SMT solvers are trusted; mitigations: three back ends, agreement check in the thorough tier, canaries, must-fail mutants",
	"Go int is a 64-bit two's-complement bit-vector (machine arithmetic, not mathematical integers); lengths and capacities are assumed to be at most 2^62",
}

func writeEvidence(o Options, seed int, wall float64, obligations, discharged, violations int, functions []string, perObl, knownEv []map[string]any,
	notes, trusted, problems []string, solverS float64, groups map[string]*group, order []string, models, deps []string) {
	var samples []any
	n := 0
	for _, name := range order {
		g := groups[name]
		if g.Known || g.Tag == "" {
			continue
		}
		samples = append(samples, map[string]any{"obligation": g.Name, "clause": g.Text, "contract": g.Pos, "paths": g.Instances, "result": g.Result, "backend": g.Backend})
		n++
		if n >= 12 {
			break
		}
	}
	if len(samples) == 0 {
		for _, name := range order {
			g := groups[name]
			samples = append(samples, map[string]any{"obligation": g.Name, "clause": g.Text, "result": g.Result, "backend": g.Backend})
			if len(samples) >= 6 {
				break
			}
		}
	}
	backends := map[string]int{}
	for _, name := range order {
		g := groups[name]
		if !g.Known {
			backends[g.Backend]++
		}
	}
	tb := []string{"govc (this repository's VC generator over go/ssa)", "z3 5.1.0, z3 4.8.12, cvc5 1.0 (first to answer unsat)", "golang.org/x/tools v0.29.0 go/ssa (NaiveForm) and go/types"}
	for _, t := range trusted {
		tb = append(tb, "trusted contract: "+t)
	}
	for _, m := range models {
		tb = append(tb, "assumed model contract of an interface method (in-repo implementations are not verified against it): "+m)
	}
	cmd := fmt.Sprintf("/verif/bin/govc check -repo %s -specs %s -prop %s -tier %s", o.Repo, o.Specs, o.Prop, o.Tier)
	if o.Sweep {
		cmd += " -sweep"
	}
	ev := map[string]any{
		"property_id": o.Prop,
		"tier":        o.Tier,
		"seed":        seed,
		"level":       "proof",
		"coverage": map[string]any{
			"obligations":              obligations,
			"discharged":               discharged,
			"checker_cmd":              cmd,
			"trusted_base":             tb,
			"samples":                  samples,
			"functions_under_contract": functions,
			"dependency_functions":     deps,
			"assumed_interface_models": models,
			"per_obligation":           perObl,
			"backends":                 backends,
			"solver_time_s":            solverS,
			"known_findings":           knownEv,
			"unverified_calls":         notes,
			"engine_problems":          problems,
			"what_the_extraction_drops": "goroutine bodies at spawn points, select, channel operations other than Conn.mu, recover, unsafe, reflection; calls without contract or body are havoc (listed under unverified_calls)",
		},
		"assumptions": append(append([]string(nil), standingAssumptions...), perPropertyAssumptions[o.Prop]...),
		"wall_s":      wall,
		"violations":  violations,
	}
	b, _ := json.MarshalIndent(ev, "", " ")
	os.MkdirAll(filepath.Dir(o.Evidence), 0o755)
	os.WriteFile(o.Evidence, b, 0o644)
}

var perPropertyAssumptions = map[string][]string{}

func tryReplay(o Options, w *vc.World, g *group, path string) bool {
	return replay(o, w, g, path)
}

var _ = strings.TrimSpace
