// Package smt is a tiny SMT-LIB2 term builder with constant folding.
//
// Terms are kept as strings; every compound term can be given a name with
// Ctx.Name, which emits a define-fun so that the emitted file stays linear in
// the size of the execution.
package smt

import (
	"fmt"
	"math/big"
	"sort"
	"strings"
)

// Sort is an SMT sort written in SMT-LIB syntax.
type Sort string

const (
	Bool  Sort = "Bool"
	Int   Sort = "Int"
	Ref   Sort = "Ref"
	Str   Sort = "Str"
	Iface Sort = "Iface"
)

// BV returns the bit-vector sort of width n.
func BV(n int) Sort { return Sort(fmt.Sprintf("(_ BitVec %d)", n)) }

// ArrayOf returns the array sort.
func ArrayOf(idx, elem Sort) Sort { return Sort(fmt.Sprintf("(Array %s %s)", idx, elem)) }

// BVWidth returns the width of a bit-vector sort, or 0.
func BVWidth(s Sort) int {
	var n int
	if _, err := fmt.Sscanf(string(s), "(_ BitVec %d)", &n); err == nil {
		return n
	}
	return 0
}

// ArrayParts splits an array sort.
func ArrayParts(s Sort) (idx, elem Sort, ok bool) {
	str := string(s)
	if !strings.HasPrefix(str, "(Array ") {
		return "", "", false
	}
	body := str[len("(Array ") : len(str)-1]
	// split at top level
	depth := 0
	for i, c := range body {
		switch c {
		case '(':
			depth++
		case ')':
			depth--
		case ' ':
			if depth == 0 {
				return Sort(body[:i]), Sort(body[i+1:]), true
			}
		}
	}
	return "", "", false
}

// Term is an SMT term with its sort. Const is set for literal BV/Bool/Int values.
type Term struct {
	S     string
	Sort  Sort
	Const bool
	Val   uint64 // BV literal (truncated to width) or Bool (0/1)
}

func (t Term) String() string { return t.S }

// IsTrue / IsFalse report literal booleans.
func (t Term) IsTrue() bool  { return t.Sort == Bool && t.Const && t.Val == 1 }
func (t Term) IsFalse() bool { return t.Sort == Bool && t.Const && t.Val == 0 }

var (
	True  = Term{S: "true", Sort: Bool, Const: true, Val: 1}
	False = Term{S: "false", Sort: Bool, Const: true, Val: 0}
)

func mask(w int) uint64 {
	if w >= 64 {
		return ^uint64(0)
	}
	return (uint64(1) << uint(w)) - 1
}

// BVLit builds a bit-vector literal of width w.
func BVLit(v uint64, w int) Term {
	v &= mask(w)
	var s string
	if w%4 == 0 {
		s = fmt.Sprintf("#x%0*x", w/4, v)
	} else {
		s = fmt.Sprintf("(_ bv%d %d)", v, w)
	}
	return Term{S: s, Sort: BV(w), Const: true, Val: v}
}

// IntLit builds an Int literal.
func IntLit(v int64) Term {
	if v < 0 {
		return Term{S: fmt.Sprintf("(- %d)", -v), Sort: Int}
	}
	return Term{S: fmt.Sprintf("%d", v), Sort: Int}
}

func BoolLit(b bool) Term {
	if b {
		return True
	}
	return False
}

func app(sort Sort, op string, args ...Term) Term {
	var sb strings.Builder
	sb.WriteByte('(')
	sb.WriteString(op)
	for _, a := range args {
		sb.WriteByte(' ')
		sb.WriteString(a.S)
	}
	sb.WriteByte(')')
	return Term{S: sb.String(), Sort: sort}
}

// App builds an application of an arbitrary function symbol.
func App(sort Sort, op string, args ...Term) Term {
	if len(args) == 0 {
		return Term{S: op, Sort: sort} // a nullary function is a constant
	}
	return app(sort, op, args...)
}

// Sym builds a reference to a declared symbol.
func Sym(name string, sort Sort) Term { return Term{S: name, Sort: sort} }

func Not(a Term) Term {
	if a.Const {
		return BoolLit(a.Val == 0)
	}
	if strings.HasPrefix(a.S, "(not ") {
		return Term{S: a.S[5 : len(a.S)-1], Sort: Bool}
	}
	return app(Bool, "not", a)
}

func And(as ...Term) Term {
	var out []Term
	for _, a := range as {
		if a.IsTrue() {
			continue
		}
		if a.IsFalse() {
			return False
		}
		out = append(out, a)
	}
	switch len(out) {
	case 0:
		return True
	case 1:
		return out[0]
	}
	return app(Bool, "and", out...)
}

func Or(as ...Term) Term {
	var out []Term
	for _, a := range as {
		if a.IsFalse() {
			continue
		}
		if a.IsTrue() {
			return True
		}
		out = append(out, a)
	}
	switch len(out) {
	case 0:
		return False
	case 1:
		return out[0]
	}
	return app(Bool, "or", out...)
}

func Implies(a, b Term) Term {
	if a.IsTrue() {
		return b
	}
	if a.IsFalse() || b.IsTrue() {
		return True
	}
	if b.IsFalse() {
		return Not(a)
	}
	return app(Bool, "=>", a, b)
}

func Eq(a, b Term) Term {
	if a.Sort != b.Sort {
		panic(fmt.Sprintf("smt.Eq: sort mismatch %s:%s vs %s:%s", a.S, a.Sort, b.S, b.Sort))
	}
	if a.Const && b.Const {
		return BoolLit(a.Val == b.Val)
	}
	if a.S == b.S {
		return True
	}
	return app(Bool, "=", a, b)
}

func Ite(c, a, b Term) Term {
	if a.Sort != b.Sort {
		panic(fmt.Sprintf("smt.Ite: sort mismatch %s:%s vs %s:%s", a.S, a.Sort, b.S, b.Sort))
	}
	if c.IsTrue() {
		return a
	}
	if c.IsFalse() {
		return b
	}
	if a.S == b.S {
		return a
	}
	if a.Sort == Bool {
		if a.IsTrue() && b.IsFalse() {
			return c
		}
		if a.IsFalse() && b.IsTrue() {
			return Not(c)
		}
	}
	return app(a.Sort, "ite", c, a, b)
}

func Select(arr, idx Term) Term {
	_, el, ok := ArrayParts(arr.Sort)
	if !ok {
		panic("smt.Select: not an array: " + arr.S + " : " + string(arr.Sort))
	}
	return app(el, "select", arr, idx)
}

func Store(arr, idx, v Term) Term {
	ix, el, ok := ArrayParts(arr.Sort)
	if !ok {
		panic("smt.Store: not an array: " + arr.S)
	}
	if ix != idx.Sort || el != v.Sort {
		panic(fmt.Sprintf("smt.Store: sort mismatch arr %s idx %s val %s", arr.Sort, idx.Sort, v.Sort))
	}
	return app(arr.Sort, "store", arr, idx, v)
}

// signed interpretation of a w-bit value
func sext(v uint64, w int) int64 {
	if w >= 64 {
		return int64(v)
	}
	if v&(1<<uint(w-1)) != 0 {
		return int64(v | ^mask(w))
	}
	return int64(v)
}

// BVBin builds a binary bit-vector operation with folding. op is the SMT name.
func BVBin(op string, a, b Term) Term {
	w := BVWidth(a.Sort)
	if w == 0 || a.Sort != b.Sort {
		panic(fmt.Sprintf("smt.BVBin %s: bad sorts %s:%s %s:%s", op, a.S, a.Sort, b.S, b.Sort))
	}
	if a.Const && b.Const {
		x, y := a.Val, b.Val
		switch op {
		case "bvadd":
			return BVLit(x+y, w)
		case "bvsub":
			return BVLit(x-y, w)
		case "bvmul":
			return BVLit(x*y, w)
		case "bvand":
			return BVLit(x&y, w)
		case "bvor":
			return BVLit(x|y, w)
		case "bvxor":
			return BVLit(x^y, w)
		case "bvshl":
			if y >= uint64(w) {
				return BVLit(0, w)
			}
			return BVLit(x<<y, w)
		case "bvlshr":
			if y >= uint64(w) {
				return BVLit(0, w)
			}
			return BVLit(x>>y, w)
		case "bvashr":
			sx := sext(x, w)
			if y >= uint64(w) {
				y = uint64(w - 1)
			}
			return BVLit(uint64(sx>>y), w)
		case "bvudiv":
			if y != 0 {
				return BVLit(x/y, w)
			}
		case "bvurem":
			if y != 0 {
				return BVLit(x%y, w)
			}
		case "bvsdiv":
			if y != 0 && !(sext(x, w) == -1<<uint(w-1) && sext(y, w) == -1) {
				return BVLit(uint64(sext(x, w)/sext(y, w)), w)
			}
		case "bvsrem":
			if y != 0 && !(sext(x, w) == -1<<uint(w-1) && sext(y, w) == -1) {
				return BVLit(uint64(sext(x, w)%sext(y, w)), w)
			}
		}
	}
	// identities
	switch op {
	case "bvadd":
		if a.Const && a.Val == 0 {
			return b
		}
		if b.Const && b.Val == 0 {
			return a
		}
	case "bvsub", "bvshl", "bvlshr", "bvashr":
		if b.Const && b.Val == 0 {
			return a
		}
	case "bvor", "bvxor":
		if a.Const && a.Val == 0 {
			return b
		}
		if b.Const && b.Val == 0 {
			return a
		}
	case "bvmul":
		if a.Const && a.Val == 1 {
			return b
		}
		if b.Const && b.Val == 1 {
			return a
		}
	}
	return app(a.Sort, op, a, b)
}

// BVCmp builds a comparison (bvslt, bvsle, bvult, bvule, bvsgt, bvsge, bvugt, bvuge).
func BVCmp(op string, a, b Term) Term {
	w := BVWidth(a.Sort)
	if w == 0 || a.Sort != b.Sort {
		panic(fmt.Sprintf("smt.BVCmp %s: bad sorts %s:%s %s:%s", op, a.S, a.Sort, b.S, b.Sort))
	}
	if a.Const && b.Const {
		sx, sy := sext(a.Val, w), sext(b.Val, w)
		switch op {
		case "bvslt":
			return BoolLit(sx < sy)
		case "bvsle":
			return BoolLit(sx <= sy)
		case "bvsgt":
			return BoolLit(sx > sy)
		case "bvsge":
			return BoolLit(sx >= sy)
		case "bvult":
			return BoolLit(a.Val < b.Val)
		case "bvule":
			return BoolLit(a.Val <= b.Val)
		case "bvugt":
			return BoolLit(a.Val > b.Val)
		case "bvuge":
			return BoolLit(a.Val >= b.Val)
		}
	}
	return app(Bool, op, a, b)
}

func BVNot(a Term) Term {
	w := BVWidth(a.Sort)
	if a.Const {
		return BVLit(^a.Val, w)
	}
	return app(a.Sort, "bvnot", a)
}

func BVNeg(a Term) Term {
	w := BVWidth(a.Sort)
	if a.Const {
		return BVLit(-a.Val, w)
	}
	return app(a.Sort, "bvneg", a)
}

// Resize converts a bit-vector to width w (zero/sign extension or truncation).
func Resize(a Term, w int, signed bool) Term {
	aw := BVWidth(a.Sort)
	if aw == 0 {
		panic("smt.Resize: not a bit-vector: " + a.S + ":" + string(a.Sort))
	}
	if aw == w {
		return a
	}
	if a.Const {
		if w < aw {
			return BVLit(a.Val, w)
		}
		if signed {
			return BVLit(uint64(sext(a.Val, aw)), w)
		}
		return BVLit(a.Val, w)
	}
	if w < aw {
		return Term{S: fmt.Sprintf("((_ extract %d 0) %s)", w-1, a.S), Sort: BV(w)}
	}
	op := "zero_extend"
	if signed {
		op = "sign_extend"
	}
	return Term{S: fmt.Sprintf("((_ %s %d) %s)", op, w-aw, a.S), Sort: BV(w)}
}

// IntBin builds Int arithmetic/comparison.
func IntBin(op string, a, b Term) Term {
	switch op {
	case "+", "-", "*":
		return app(Int, op, a, b)
	}
	return app(Bool, op, a, b)
}

// Ctx collects declarations and named definitions for one SMT file.
type Ctx struct {
	storeDefs map[string][3]string // named store terms: name -> (array, index, value)
	sorts    map[string]bool
	decls    []string // in order
	declared map[string]Sort
	n        int
	Prelude  []string // raw commands emitted after the declarations (axioms)
	NoName   int      // >0: Name() is the identity (terms under a binder)
	named    map[string]string
}

func NewCtx() *Ctx {
	return &Ctx{sorts: map[string]bool{}, declared: map[string]Sort{}, named: map[string]string{}}
}

func (c *Ctx) noteSort(s Sort) {
	str := string(s)
	switch {
	case s == Bool || s == Int:
		return
	case strings.HasPrefix(str, "(_ BitVec"):
		return
	case strings.HasPrefix(str, "(Array "):
		ix, el, _ := ArrayParts(s)
		c.noteSort(ix)
		c.noteSort(el)
		return
	}
	if !c.sorts[str] {
		c.sorts[str] = true
	}
}

// Sanitize makes an SMT-LIB quoted symbol out of an arbitrary name.
func Sanitize(name string) string {
	name = strings.NewReplacer("|", "!", "\\", "!").Replace(name)
	simple := true
	for _, r := range name {
		if !(r == '_' || r == '.' || r == '$' || r == '!' || (r >= '0' && r <= '9') || (r >= 'a' && r <= 'z') || (r >= 'A' && r <= 'Z')) {
			simple = false
			break
		}
	}
	if simple && name != "" && !(name[0] >= '0' && name[0] <= '9') {
		return name
	}
	return "|" + name + "|"
}

// Fresh declares a fresh constant whose name starts with hint.
func (c *Ctx) Fresh(hint string, s Sort) Term {
	c.n++
	name := Sanitize(fmt.Sprintf("%s!%d", hint, c.n))
	c.noteSort(s)
	c.decls = append(c.decls, fmt.Sprintf("(declare-fun %s () %s)", name, s))
	c.declared[name] = s
	return Term{S: name, Sort: s}
}

// Const declares (once) a constant with a fixed name.
func (c *Ctx) Const(name string, s Sort) Term {
	name = Sanitize(name)
	if old, ok := c.declared[name]; ok {
		if old != s {
			panic(fmt.Sprintf("smt: %s redeclared with sort %s (was %s)", name, s, old))
		}
		return Term{S: name, Sort: s}
	}
	c.noteSort(s)
	c.decls = append(c.decls, fmt.Sprintf("(declare-fun %s () %s)", name, s))
	c.declared[name] = s
	return Term{S: name, Sort: s}
}

// Fun declares (once) an uninterpreted function.
func (c *Ctx) Fun(name string, args []Sort, res Sort) string {
	name = Sanitize(name)
	if _, ok := c.declared[name]; ok {
		return name
	}
	var as []string
	for _, a := range args {
		c.noteSort(a)
		as = append(as, string(a))
	}
	c.noteSort(res)
	c.decls = append(c.decls, fmt.Sprintf("(declare-fun %s (%s) %s)", name, strings.Join(as, " "), res))
	c.declared[name] = res
	return name
}

// Name gives a compound term a name (define-fun) unless it is already small.
func (c *Ctx) Name(hint string, t Term) Term {
	if c.NoName > 0 {
		return t
	}
	if t.Const || len(t.S) < 24 && !strings.ContainsAny(t.S, "( ") {
		return t
	}
	if n, ok := c.named[t.S]; ok {
		return Term{S: n, Sort: t.Sort}
	}
	c.n++
	name := Sanitize(fmt.Sprintf("%s!%d", hint, c.n))
	c.noteSort(t.Sort)
	c.decls = append(c.decls, fmt.Sprintf("(define-fun %s () %s %s)", name, t.Sort, t.S))
	c.declared[name] = t.Sort
	c.named[t.S] = name
	if strings.HasPrefix(t.S, "(store ") {
		if parts := splitArgs(t.S[len("(store ") : len(t.S)-1]); len(parts) == 3 {
			if c.storeDefs == nil {
				c.storeDefs = map[string][3]string{}
			}
			c.storeDefs[name] = [3]string{parts[0], parts[1], parts[2]}
		}
	}
	return Term{S: name, Sort: t.Sort}
}

// SelectThrough is Select with read-over-write through named store definitions: when arr is (a name for) a store at a
// syntactically identical index, the stored value is returned; when the index is a different *fresh-object constant*
// nothing is concluded (that needs the solver). Only the identical-index case is resolved here.
func (c *Ctx) SelectThrough(arr, idx Term) Term {
	_, el, ok := ArrayParts(arr.Sort)
	if !ok {
		return Select(arr, idx)
	}
	cur := arr.S
	for i := 0; i < 64; i++ {
		var parts [3]string
		if d, ok := c.storeDefs[cur]; ok {
			parts = d
		} else if strings.HasPrefix(cur, "(store ") {
			ps := splitArgs(cur[len("(store ") : len(cur)-1])
			if len(ps) != 3 {
				break
			}
			parts = [3]string{ps[0], ps[1], ps[2]}
		} else {
			break
		}
		if parts[1] == idx.S {
			return Term{S: parts[2], Sort: el}
		}
		break // a different index term: may or may not alias
	}
	return Select(arr, idx)
}

// splitArgs splits the arguments of an s-expression body at top level (parentheses and |quoted symbols| respected).
func splitArgs(s string) []string {
	var out []string
	depth := 0
	inBar := false
	start := -1
	for i := 0; i < len(s); i++ {
		ch := s[i]
		if inBar {
			if ch == '|' {
				inBar = false
			}
			continue
		}
		switch ch {
		case '|':
			inBar = true
			if start < 0 {
				start = i
			}
		case '(':
			if start < 0 {
				start = i
			}
			depth++
		case ')':
			depth--
		case ' ', '\t', '\n':
			if depth == 0 && start >= 0 {
				out = append(out, s[start:i])
				start = -1
			}
		default:
			if start < 0 {
				start = i
			}
		}
	}
	if start >= 0 {
		out = append(out, s[start:])
	}
	return out
}

// Axiom adds a global assertion (part of every query of the file).
func (c *Ctx) Axiom(t Term) {
	if t.IsTrue() {
		return
	}
	c.decls = append(c.decls, fmt.Sprintf("(assert %s)", t.S))
}

// RawDecl appends a raw command in declaration order.
func (c *Ctx) RawDecl(s string) { c.decls = append(c.decls, s) }

// Header renders sort declarations and all declarations/definitions/axioms.
func (c *Ctx) Header() string {
	var sb strings.Builder
	var ss []string
	for s := range c.sorts {
		ss = append(ss, s)
	}
	sort.Strings(ss)
	for _, s := range ss {
		fmt.Fprintf(&sb, "(declare-sort %s 0)\n", s)
	}
	for _, d := range c.decls {
		sb.WriteString(d)
		sb.WriteByte('\n')
	}
	return sb.String()
}

// NDecls is the number of declarations so far (used to size-cap files).
func (c *Ctx) NDecls() int { return len(c.decls) }

// BigLit is a helper for literal values given as big.Int (constants from go/constant).
func BigLit(v *big.Int, w int) Term {
	m := new(big.Int).Lsh(big.NewInt(1), uint(w))
	x := new(big.Int).Mod(v, m)
	return BVLit(x.Uint64(), w)
}
