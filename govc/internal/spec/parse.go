package spec

import (
	"fmt"
	"os"
	"strconv"
	"strings"
)

type token struct {
	kind string // ident int string char op eof
	text string
}

type lexer struct {
	src string
	i   int
	err error
}

var ops = []string{
	"<==>", "==>", "<<=", ">>=", "&^", "&&", "||", "==", "!=", "<=", ">=", "<<", ">>", "::",
	"+", "-", "*", "/", "%", "&", "|", "^", "<", ">", "!", "(", ")", "[", "]", "{", "}", ",", ".", ":", "?", "=", "#", ";",
}

func isIdentStart(c byte) bool {
	return c == '_' || c == '$' || (c >= 'a' && c <= 'z') || (c >= 'A' && c <= 'Z')
}
func isIdentPart(c byte) bool { return isIdentStart(c) || (c >= '0' && c <= '9') }

func (l *lexer) next() token {
	for l.i < len(l.src) && (l.src[l.i] == ' ' || l.src[l.i] == '\t' || l.src[l.i] == '\n') {
		l.i++
	}
	if l.i >= len(l.src) {
		return token{kind: "eof"}
	}
	c := l.src[l.i]
	switch {
	case isIdentStart(c):
		j := l.i
		for j < len(l.src) && isIdentPart(l.src[j]) {
			j++
		}
		t := token{"ident", l.src[l.i:j]}
		l.i = j
		return t
	case c >= '0' && c <= '9':
		j := l.i
		for j < len(l.src) && (isIdentPart(l.src[j])) {
			j++
		}
		t := token{"int", l.src[l.i:j]}
		l.i = j
		return t
	case c == '"' || c == '`':
		j := l.i + 1
		for j < len(l.src) && l.src[j] != c {
			if c == '"' && l.src[j] == '\\' {
				j++
			}
			j++
		}
		if j >= len(l.src) {
			l.err = fmt.Errorf("unterminated string")
			return token{kind: "eof"}
		}
		raw := l.src[l.i : j+1]
		l.i = j + 1
		s, err := strconv.Unquote(raw)
		if err != nil {
			l.err = fmt.Errorf("bad string %s", raw)
		}
		return token{"string", s}
	case c == '\'':
		j := l.i + 1
		for j < len(l.src) && l.src[j] != '\'' {
			if l.src[j] == '\\' {
				j++
			}
			j++
		}
		if j >= len(l.src) {
			l.err = fmt.Errorf("unterminated char")
			return token{kind: "eof"}
		}
		raw := l.src[l.i : j+1]
		l.i = j + 1
		r, _, _, err := strconv.UnquoteChar(raw[1:len(raw)-1], '\'')
		if err != nil {
			l.err = fmt.Errorf("bad char %s", raw)
		}
		return token{"char", strconv.Itoa(int(r))}
	}
	for _, op := range ops {
		if strings.HasPrefix(l.src[l.i:], op) {
			l.i += len(op)
			return token{"op", op}
		}
	}
	l.err = fmt.Errorf("unexpected character %q", c)
	l.i++
	return token{kind: "eof"}
}

type parser struct {
	toks []token
	p    int
	err  error
}

func newParser(src string) *parser {
	l := &lexer{src: src}
	ps := &parser{}
	for {
		t := l.next()
		ps.toks = append(ps.toks, t)
		if t.kind == "eof" {
			break
		}
	}
	ps.err = l.err
	return ps
}

func (p *parser) peek() token { return p.toks[p.p] }
func (p *parser) peekN(n int) token {
	if p.p+n < len(p.toks) {
		return p.toks[p.p+n]
	}
	return token{kind: "eof"}
}
func (p *parser) advance() token {
	t := p.toks[p.p]
	if p.p < len(p.toks)-1 {
		p.p++
	}
	return t
}
func (p *parser) isOp(s string) bool { t := p.peek(); return t.kind == "op" && t.text == s }
func (p *parser) accept(s string) bool {
	if p.isOp(s) {
		p.advance()
		return true
	}
	return false
}
func (p *parser) expect(s string) {
	if !p.accept(s) {
		p.fail("expected %q, found %q", s, p.peek().text)
	}
}
func (p *parser) fail(f string, a ...any) {
	if p.err == nil {
		p.err = fmt.Errorf(f, a...)
	}
}

// precedence levels (low to high)
var binPrec = map[string]int{
	"<==>": 1, "==>": 2,
	"||": 4, "&&": 5,
	"==": 6, "!=": 6, "<": 6, "<=": 6, ">": 6, ">=": 6,
	"+": 7, "-": 7, "|": 7, "^": 7,
	"*": 8, "/": 8, "%": 8, "<<": 8, ">>": 8, "&": 8, "&^": 8,
}

func (p *parser) parseExpr() Expr { return p.parseCond() }

// cond := binary(1) [ "?" expr ":" cond ]
func (p *parser) parseCond() Expr {
	c := p.parseBin(1)
	if p.accept("?") {
		a := p.parseCond()
		p.expect(":")
		b := p.parseCond()
		return &Cond{c, a, b}
	}
	return c
}

func (p *parser) parseBin(min int) Expr {
	x := p.parseUnary()
	for {
		t := p.peek()
		if t.kind != "op" {
			return x
		}
		pr, ok := binPrec[t.text]
		if !ok || pr < min {
			return x
		}
		p.advance()
		var y Expr
		if t.text == "==>" {
			// right associative; the right side may be a quantifier or a conditional
			y = p.parseImplRHS(pr)
		} else {
			y = p.parseBin(pr + 1)
		}
		x = &Binary{t.text, x, y}
	}
}

func (p *parser) parseImplRHS(pr int) Expr {
	t := p.peek()
	if t.kind == "ident" && (t.text == "forall" || t.text == "exists") {
		return p.parseUnary()
	}
	return p.parseBin(pr)
}

func (p *parser) parseUnary() Expr {
	t := p.peek()
	if t.kind == "op" {
		switch t.text {
		case "!", "-", "^", "+":
			p.advance()
			return &Unary{t.text, p.parseUnary()}
		}
	}
	if t.kind == "ident" && (t.text == "forall" || t.text == "exists") && p.peekN(1).kind == "ident" {
		p.advance()
		v := p.advance().text
		ty := p.parseType()
		p.expect("::")
		body := p.parseExpr()
		return &Quant{Forall: t.text == "forall", Var: v, Type: ty, Body: body}
	}
	return p.parsePostfix(p.parsePrimary())
}

func (p *parser) parseType() *TypeExpr {
	te := &TypeExpr{}
	if p.isOp("[") && p.peekN(1).kind == "op" && p.peekN(1).text == "]" {
		p.advance()
		p.advance()
		te.Slice = true
	}
	for p.accept("*") {
		te.Stars++
	}
	if p.peekN(0).kind == "ident" && p.peekN(0).text == "map" && p.peekN(1).kind == "op" && p.peekN(1).text == "[" {
		p.advance()
		p.advance()
		te.Name = "map"
		te.MapKey = p.parseType()
		if !p.accept("]") {
			p.fail("expected ] in map type")
			return te
		}
		te.MapVal = p.parseType()
		return te
	}
	t := p.advance()
	if t.kind != "ident" {
		p.fail("expected type name, found %q", t.text)
		return te
	}
	te.Name = t.text
	for p.isOp(".") || p.isOp("/") {
		// qualified: pkg.Name or path/pkg.Name
		sep := p.advance().text
		n := p.advance()
		if n.kind != "ident" {
			p.fail("bad qualified type")
			return te
		}
		if sep == "." {
			te.Pkg = te.Name
			if te.Pkg != "" && strings.Contains(te.Pkg, "\x00") {
				te.Pkg = strings.ReplaceAll(te.Pkg, "\x00", "/")
			}
			te.Name = n.text
		} else {
			te.Name = te.Name + "\x00" + n.text
		}
	}
	te.Pkg = strings.ReplaceAll(te.Pkg, "\x00", "/")
	return te
}

func (p *parser) parsePrimary() Expr {
	t := p.advance()
	switch t.kind {
	case "ident":
		return &Ident{t.text}
	case "int":
		return &Lit{"int", t.text}
	case "char":
		return &Lit{"int", t.text}
	case "string":
		return &Lit{"string", t.text}
	case "op":
		switch t.text {
		case "(":
			// parenthesised expression or pointer type "(*T)"
			if p.isOp("*") {
				save := p.p
				ty := p.parseType()
				if p.accept(")") && p.err == nil {
					return ty
				}
				p.p = save
				p.err = nil
			}
			e := p.parseExpr()
			p.expect(")")
			return e
		case "*":
			p.p--
			return p.parseType()
		case "[":
			p.p--
			return p.parseType()
		}
	}
	p.fail("unexpected token %q", t.text)
	return &Ident{"_"}
}

func (p *parser) parsePostfix(x Expr) Expr {
	for {
		switch {
		case p.accept("."):
			n := p.advance()
			if n.kind != "ident" {
				p.fail("expected field name")
				return x
			}
			x = &Sel{x, n.text}
		case p.accept("("):
			var args []Expr
			if id, ok := x.(*Ident); ok && (id.Name == "typeis" || id.Name == "zero" || id.Name == "unbox") {
				if id.Name != "zero" {
					args = append(args, p.parseExpr())
					p.expect(",")
				}
				args = append(args, p.parseType())
				p.expect(")")
				x = &Call{x, args}
				continue
			}
			for !p.isOp(")") && p.peek().kind != "eof" {
				args = append(args, p.parseExpr())
				if !p.accept(",") {
					break
				}
			}
			p.expect(")")
			x = &Call{x, args}
		case p.accept("["):
			var lo, hi Expr
			if !p.isOp(":") {
				lo = p.parseExpr()
			}
			if p.accept(":") {
				if !p.isOp("]") {
					hi = p.parseExpr()
				}
				p.expect("]")
				x = &SliceEx{x, lo, hi}
			} else {
				p.expect("]")
				x = &Index{x, lo}
			}
		default:
			return x
		}
	}
}

// ParseExpr parses a single expression.
func ParseExpr(src string) (Expr, error) {
	p := newParser(src)
	e := p.parseExpr()
	if p.err == nil && p.peek().kind != "eof" {
		p.fail("trailing input %q", p.peek().text)
	}
	return e, p.err
}

type line struct {
	text string
	pos  Pos
}

// ParseFile parses a contract file. For .go files only lines starting with
// "//@" are considered (the package clause gives the package name); for
// .spec files every non-comment line is a contract line.
func ParseFile(path string, pkgPath string) (*File, error) {
	data, err := os.ReadFile(path)
	if err != nil {
		return nil, err
	}
	f := &File{Path: path, Pkg: pkgPath, Imports: map[string]string{}}
	isGo := strings.HasSuffix(path, ".go")
	f.External = !isGo
	var lines []line
	for i, raw := range strings.Split(string(data), "\n") {
		pos := Pos{path, i + 1}
		if isGo {
			t := strings.TrimLeft(raw, " \t")
			if !strings.HasPrefix(t, "//@") {
				continue
			}
			raw = t[3:]
		} else {
			if idx := strings.Index(raw, "//"); idx >= 0 && !strings.Contains(raw[:idx], "\"") {
				raw = raw[:idx]
			}
		}
		if idx := strings.Index(raw, " // "); idx >= 0 && isGo && !strings.Contains(raw[idx:], "\"") {
			raw = raw[:idx]
		}
		if strings.TrimSpace(raw) == "" {
			continue
		}
		lines = append(lines, line{raw, pos})
	}
	// join continuation lines: a line whose first word is not a keyword continues the previous one
	var joined []line
	for _, ln := range lines {
		w := firstWord(ln.text)
		if !keywords[w] && len(joined) > 0 {
			joined[len(joined)-1].text += " " + strings.TrimSpace(ln.text)
			continue
		}
		joined = append(joined, ln)
	}
	var cur *FuncSpec
	var curCS *CallSite
	for _, ln := range joined {
		text := strings.TrimSpace(ln.text)
		w := firstWord(text)
		rest := strings.TrimSpace(strings.TrimPrefix(text, w))
		fail := func(err error) error { return fmt.Errorf("%s: %v (in %q)", ln.pos, err, text) }
		switch w {
		case "import":
			// import alias "path"
			parts := strings.Fields(rest)
			if len(parts) != 2 {
				return nil, fail(fmt.Errorf("import alias \"path\""))
			}
			pth, err := strconv.Unquote(parts[1])
			if err != nil {
				return nil, fail(err)
			}
			f.Imports[parts[0]] = pth
		case "stablegetters":
			f.Stable = append(f.Stable, rest)
			cur, curCS = nil, nil
		case "package":
			if !isGo {
				f.Pkg = strings.Trim(rest, "\"")
			}
		case "spec":
			sf, err := parseSpecFunc(rest)
			if err != nil {
				return nil, fail(err)
			}
			sf.Pos = ln.pos
			sf.Pkg = f.Pkg
			f.Specs = append(f.Specs, sf)
			cur, curCS = nil, nil
		case "private":
			// private T1, T2 in file.go
			i := strings.Index(rest, " in ")
			if i < 0 {
				return nil, fail(fmt.Errorf("private T1, T2 in file.go"))
			}
			pr := &Private{File: strings.TrimSpace(rest[i+4:]), Pos: ln.pos, Pkg: f.Pkg}
			for _, t := range strings.Split(rest[:i], ",") {
				pr.Types = append(pr.Types, strings.TrimSpace(t))
			}
			f.Privates = append(f.Privates, pr)
			cur, curCS = nil, nil
		case "footprint":
			eq := strings.Index(rest, "=")
			op := strings.Index(rest, "(")
			cp := strings.Index(rest, ")")
			if eq < 0 || op < 0 || cp < op || cp > eq {
				return nil, fail(fmt.Errorf("footprint Name(params) = locations"))
			}
			fp := &Footprint{Name: strings.TrimSpace(rest[:op]), Pos: ln.pos}
			for _, n := range strings.Split(rest[op+1:cp], ",") {
				if n = strings.TrimSpace(n); n != "" {
					fp.Params = append(fp.Params, n)
				}
			}
			ls, err := parseExprList(rest[eq+1:])
			if err != nil {
				return nil, fail(err)
			}
			fp.Locs = ls
			f.Footprints = append(f.Footprints, fp)
			cur, curCS = nil, nil
		case "macro":
			// macro name(a, b) = expr : an untyped spec function (parameters and result take the types of the arguments and
			// of the body), usable with values of generic types
			sf, err := parseMacro(rest)
			if err != nil {
				return nil, fail(err)
			}
			sf.Pos = ln.pos
			sf.Pkg = f.Pkg
			f.Specs = append(f.Specs, sf)
			cur, curCS = nil, nil
		case "represents":
			// represents (*impl) Iface.$ghost = expr
			eq := strings.Index(rest, "=")
			if eq < 0 {
				return nil, fail(fmt.Errorf("represents (*T) I.$g = expr"))
			}
			head := strings.Fields(strings.TrimSpace(rest[:eq]))
			if len(head) != 2 || !strings.Contains(head[1], ".$") {
				return nil, fail(fmt.Errorf("represents (*T) I.$g = expr"))
			}
			ex, err := ParseExpr(rest[eq+1:])
			if err != nil {
				return nil, fail(err)
			}
			di := strings.Index(head[1], ".$")
			f.Reps = append(f.Reps, &Represents{Impl: head[0], Iface: head[1][:di], Ghost: head[1][di+1:], Expr: ex, Text: strings.TrimSpace(rest), Pos: ln.pos, Pkg: f.Pkg})
			cur, curCS = nil, nil
		case "typeinv":
			// typeinv (*T) expr-over-this
			r := strings.TrimSpace(rest)
			close := strings.Index(r, ")")
			if !strings.HasPrefix(r, "(") || close < 0 {
				return nil, fail(fmt.Errorf("typeinv (*T) expr"))
			}
			ex, err := ParseExpr(r[close+1:])
			if err != nil {
				return nil, fail(err)
			}
			f.TypeInvs = append(f.TypeInvs, &TypeInv{Recv: r[:close+1], Expr: ex, Text: strings.TrimSpace(r[close+1:]), Pos: ln.pos, Pkg: f.Pkg})
			cur, curCS = nil, nil
		case "ghost":
			g, err := parseGhost(rest)
			if err != nil {
				return nil, fail(err)
			}
			g.Pos = ln.pos
			g.Pkg = f.Pkg
			f.Ghosts = append(f.Ghosts, g)
			cur, curCS = nil, nil
		case "axiom", "lemma":
			name := ""
			if w == "lemma" {
				idx := strings.Index(rest, ":")
				if idx < 0 {
					return nil, fail(fmt.Errorf("lemma name: expr"))
				}
				name = strings.TrimSpace(rest[:idx])
				rest = rest[idx+1:]
			}
			cl, err := parseClause(rest, ln.pos)
			if err != nil {
				return nil, fail(err)
			}
			if w == "axiom" {
				f.Axioms = append(f.Axioms, &Axiom{cl, f.Pkg})
			} else {
				f.Lemmas = append(f.Lemmas, &Lemma{name, cl, f.Pkg})
			}
			cur, curCS = nil, nil
		case "event":
			ev, err := parseEvent(rest)
			if err != nil {
				return nil, fail(err)
			}
			ev.Pos = ln.pos
			ev.Pkg = f.Pkg
			f.Events = append(f.Events, ev)
			cur, curCS = nil, nil
		case "func":
			fs := &FuncSpec{Pos: ln.pos, Pkg: f.Pkg, External: f.External, Opts: map[string]string{}}
			ref := rest
			// optional trailing "(a, b, c)" name list: the ref itself may start with "(" for methods
			if i := strings.LastIndex(ref, "("); i > 0 && strings.HasSuffix(ref, ")") && !strings.HasPrefix(strings.TrimSpace(ref[i:]), "(*") {
				names := strings.TrimSpace(ref[i+1 : len(ref)-1])
				before := strings.TrimSpace(ref[:i])
				// make sure this is not the receiver part "(T).m"
				if !strings.HasSuffix(before, ")") || true {
					if before != "" && !strings.HasSuffix(before, ".") {
						ref = before
						if names != "" {
							for _, n := range strings.Split(names, ",") {
								fs.Names = append(fs.Names, strings.TrimSpace(n))
							}
						}
					}
				}
			}
			fs.Ref = strings.TrimSpace(ref)
			f.Funcs = append(f.Funcs, fs)
			cur, curCS = fs, nil
		default:
			if cur == nil {
				return nil, fail(fmt.Errorf("clause outside func"))
			}
			switch w {
			case "requires", "ensures", "assumes":
				cl, err := parseClause(rest, ln.pos)
				if err != nil {
					return nil, fail(err)
				}
				if w == "requires" {
					cur.Requires = append(cur.Requires, cl)
				} else if w == "assumes" {
					cur.Assumes = append(cur.Assumes, cl)
				} else {
					cur.Ensures = append(cur.Ensures, cl)
				}
				curCS = nil
			case "modifies":
				cur.HasMod = true
				curCS = nil
				if rest == "*" {
					cur.ModAll = true
					break
				}
				if rest == "nothing" {
					break
				}
				var cond Expr
				if i := strings.Index(rest, " if "); i >= 0 {
					c, err := ParseExpr(rest[i+4:])
					if err != nil {
						return nil, fail(err)
					}
					cond = c
					rest = rest[:i]
				}
				es, err := parseExprList(rest)
				if err != nil {
					return nil, fail(err)
				}
				for _, e := range es {
					if cond != nil {
						e = &Cond{C: cond, A: e}
					}
					cur.Modifies = append(cur.Modifies, e)
				}
			case "pure":
				cur.Pure = true
			case "noeffect":
				cur.NoEffect = true
			case "silent":
				cur.NoEffect = true
				cur.Silent = true
			case "noinline":
				cur.NoInline = true
			case "inline":
				cur.Inline = true
			case "fresh":
				cur.Fresh = true
			case "trusted":
				cur.Trusted = strings.Trim(rest, "\"")
				if cur.Trusted == "" {
					cur.Trusted = "trusted"
				}
			case "props":
				for _, p := range strings.Split(rest, ",") {
					cur.Props = append(cur.Props, strings.TrimSpace(p))
				}
			case "opt":
				kv := strings.SplitN(rest, "=", 2)
				if len(kv) == 2 {
					cur.Opts[strings.TrimSpace(kv[0])] = strings.TrimSpace(kv[1])
				} else {
					cur.Opts[strings.TrimSpace(rest)] = "true"
				}
			case "dyncall":
				parts := strings.Fields(rest)
				if len(parts) != 2 || parts[1] != "pure" && parts[1] != "noeffect" {
					return nil, fail(fmt.Errorf("dyncall <variable> pure|noeffect"))
				}
				if cur.DynCalls == nil {
					cur.DynCalls = map[string]string{}
				}
				cur.DynCalls[parts[0]] = parts[1]
			case "shape":
				// shape [tag] F calls G, H : the body of F still contains static calls to G and H (what a trusted summary of F relies on)
				r := strings.TrimSpace(rest)
				c := &Census{Pos: ln.pos, Text: r}
				if strings.HasPrefix(r, "[") {
					if i := strings.Index(r, "]"); i > 0 {
						c.Tag = r[1:i]
						r = strings.TrimSpace(r[i+1:])
					}
				}
				i := strings.Index(r, " calls ")
				if i < 0 {
					return nil, fail(fmt.Errorf("shape [tag] F calls G, H"))
				}
				c.Shape = strings.TrimSpace(r[:i])
				for _, f := range strings.Split(r[i+7:], ",") {
					c.Writers = append(c.Writers, strings.TrimSpace(f))
				}
				cur.Census = append(cur.Census, c)
				curCS = nil
			case "census":
				r := strings.TrimSpace(rest)
				c := &Census{Pos: ln.pos, Text: r}
				if strings.HasPrefix(r, "[") {
					if i := strings.Index(r, "]"); i > 0 {
						c.Tag = r[1:i]
						r = strings.TrimSpace(r[i+1:])
					}
				}
				i := strings.Index(r, " written only by ")
				if i < 0 {
					return nil, fail(fmt.Errorf("census [tag] fields written only by functions"))
				}
				for _, f := range strings.Split(r[:i], ",") {
					c.Fields = append(c.Fields, strings.TrimSpace(f))
				}
				for _, f := range strings.Split(r[i+17:], ",") {
					c.Writers = append(c.Writers, strings.TrimSpace(f))
				}
				cur.Census = append(cur.Census, c)
				curCS = nil
			case "monitor":
				gi := strings.Index(rest, " guards ")
				ii := strings.Index(rest, " invariant ")
				if gi < 0 || ii < gi {
					return nil, fail(fmt.Errorf("monitor lock guards locations invariant expr"))
				}
				le, err := ParseExpr(rest[:gi])
				if err != nil {
					return nil, fail(err)
				}
				gs, err := parseExprList(rest[gi+8 : ii])
				if err != nil {
					return nil, fail(err)
				}
				cl, err := parseClause(rest[ii+11:], ln.pos)
				if err != nil {
					return nil, fail(err)
				}
				cur.Monitors = append(cur.Monitors, &Monitor{Lock: le, Guards: gs, Inv: cl, Pos: ln.pos})
				curCS = nil
			case "reenter":
				i := strings.Index(rest, " modifies ")
				if i < 0 {
					return nil, fail(fmt.Errorf("reenter callee[, callee] modifies locations"))
				}
				re := &Reenter{Pos: ln.pos}
				for _, c := range strings.Split(rest[:i], ",") {
					re.Callees = append(re.Callees, strings.TrimSpace(c))
				}
				mods := rest[i+10:]
				if k := strings.Index(mods, " keeping "); k >= 0 {
					cl, err := parseClause(mods[k+9:], ln.pos)
					if err != nil {
						return nil, fail(err)
					}
					re.Keeping = cl
					mods = mods[:k]
				}
				es, err := parseExprList(mods)
				if err != nil {
					return nil, fail(err)
				}
				re.Mods = es
				cur.Reenter = append(cur.Reenter, re)
				curCS = nil
			case "let":
				idx := strings.Index(rest, "=")
				if idx < 0 {
					return nil, fail(fmt.Errorf("let name = expr"))
				}
				e, err := ParseExpr(rest[idx+1:])
				if err != nil {
					return nil, fail(err)
				}
				cur.Lets = append(cur.Lets, &Let{strings.TrimSpace(rest[:idx]), e})
			case "loop":
				parts := strings.SplitN(rest, " ", 3)
				if len(parts) < 3 {
					return nil, fail(fmt.Errorf("loop N invariant|decreases expr"))
				}
				var ls *LoopSpec
				ord, err := strconv.Atoi(parts[0])
				for _, l := range cur.Loops {
					if (err == nil && l.Ordinal == ord) || (err != nil && l.Label == parts[0]) {
						ls = l
					}
				}
				if ls == nil {
					ls = &LoopSpec{}
					if err == nil {
						ls.Ordinal = ord
					} else {
						ls.Label = parts[0]
					}
					cur.Loops = append(cur.Loops, ls)
				}
				switch parts[1] {
				case "invariant":
					cl, err := parseClause(parts[2], ln.pos)
					if err != nil {
						return nil, fail(err)
					}
					ls.Invariants = append(ls.Invariants, cl)
				case "assumes":
					cl, err := parseClause(parts[2], ln.pos)
					if err != nil {
						return nil, fail(err)
					}
					ls.Assumes = append(ls.Assumes, cl)
				case "decreases":
					cl, err := parseClause(parts[2], ln.pos)
					if err != nil {
						return nil, fail(err)
					}
					ls.Decreases = cl
				case "modifies":
					es, err := parseExprList(parts[2])
					if err != nil {
						return nil, fail(err)
					}
					ls.Modifies = append(ls.Modifies, es...)
				default:
					return nil, fail(fmt.Errorf("unknown loop clause %q", parts[1]))
				}
				curCS = nil
			case "callsite":
				idx := strings.LastIndex(rest, "#")
				cs := &CallSite{Pos: ln.pos}
				if idx >= 0 {
					n, err := strconv.Atoi(strings.TrimSpace(rest[idx+1:]))
					if err != nil {
						return nil, fail(fmt.Errorf("bad call ordinal"))
					}
					cs.Ordinal = n
					cs.Callee = strings.TrimSpace(rest[:idx])
				} else {
					cs.Callee = rest
				}
				cur.CallSites = append(cur.CallSites, cs)
				curCS = cs
			case "cutafter":
				// "cutafter callee#n" + "invariant expr" lines: the paths of the function are joined after that call; what
				// follows is verified once, from an arbitrary state satisfying the invariants (like a loop head)
				idx := strings.LastIndex(rest, "#")
				cs := &CallSite{Pos: ln.pos, Cut: true, Ordinal: 1}
				if idx >= 0 {
					n, err := strconv.Atoi(strings.TrimSpace(rest[idx+1:]))
					if err != nil {
						return nil, fail(fmt.Errorf("bad call ordinal"))
					}
					cs.Ordinal = n
					cs.Callee = strings.TrimSpace(rest[:idx])
				} else {
					cs.Callee = rest
				}
				cur.Cuts = append(cur.Cuts, cs)
				curCS = cs
			case "invariant":
				if curCS == nil || !curCS.Cut {
					return nil, fail(fmt.Errorf("invariant outside cutafter"))
				}
				cl, err := parseClause(rest, ln.pos)
				if err != nil {
					return nil, fail(err)
				}
				curCS.Asserts = append(curCS.Asserts, cl)
			case "assume":
				if curCS == nil || curCS.Cut {
					return nil, fail(fmt.Errorf("assume outside callsite"))
				}
				cl, err := parseClause(rest, ln.pos)
				if err != nil {
					return nil, fail(err)
				}
				curCS.Assumes = append(curCS.Assumes, cl)
			case "assert":
				if curCS == nil || curCS.Cut {
					return nil, fail(fmt.Errorf("assert outside callsite"))
				}
				cl, err := parseClause(rest, ln.pos)
				if err != nil {
					return nil, fail(err)
				}
				curCS.Asserts = append(curCS.Asserts, cl)
			default:
				return nil, fail(fmt.Errorf("unknown clause %q", w))
			}
		}
	}
	return f, nil
}

var keywords = map[string]bool{
	"spec": true, "macro": true, "footprint": true, "private": true, "ghost": true, "axiom": true, "lemma": true, "event": true, "func": true,
	"requires": true, "ensures": true, "modifies": true, "pure": true, "noeffect": true, "trusted": true,
	"let": true, "loop": true, "callsite": true, "assert": true, "assume": true, "cutafter": true, "invariant": true, "typeinv": true, "import": true, "package": true,
	"noinline": true, "inline": true, "props": true, "fresh": true, "opt": true, "stablegetters": true, "represents": true, "dyncall": true, "silent": true, "assumes": true, "reenter": true, "monitor": true, "census": true, "shape": true,
}

func firstWord(s string) string {
	s = strings.TrimSpace(s)
	for i, c := range s {
		if c == ' ' || c == '\t' {
			return s[:i]
		}
	}
	return s
}

func parseClause(s string, pos Pos) (*Clause, error) {
	s = strings.TrimSpace(s)
	cl := &Clause{Pos: pos}
	if strings.HasPrefix(s, "[") {
		if i := strings.Index(s, "]"); i > 0 {
			tag := s[1:i]
			if len(tag) > 1 && tag[0] == 'C' && tag[1] >= '0' && tag[1] <= '9' {
				cl.Tag = tag
				s = strings.TrimSpace(s[i+1:])
			}
		}
	}
	cl.Text = s
	e, err := ParseExpr(s)
	if err != nil {
		return nil, err
	}
	cl.Expr = e
	return cl, nil
}

func parseExprList(s string) ([]Expr, error) {
	p := newParser(s)
	var out []Expr
	for {
		out = append(out, p.parseExpr())
		if !p.accept(",") {
			break
		}
	}
	if p.err == nil && p.peek().kind != "eof" {
		p.fail("trailing input %q", p.peek().text)
	}
	return out, p.err
}

// spec name(a T, b U) R = expr
func parseSpecFunc(s string) (*SpecFunc, error) {
	eq := strings.Index(s, "=")
	// the first '=' that is not part of "==" etc. within the signature: signature has no '='
	if eq < 0 {
		return nil, fmt.Errorf("spec f(params) T = expr")
	}
	sig, body := s[:eq], s[eq+1:]
	p := newParser(sig)
	sf := &SpecFunc{}
	n := p.advance()
	if n.kind != "ident" {
		return nil, fmt.Errorf("spec name expected")
	}
	sf.Name = n.text
	p.expect("(")
	for !p.isOp(")") && p.peek().kind != "eof" {
		pn := p.advance()
		ty := p.parseType()
		sf.Params = append(sf.Params, Param{pn.text, ty})
		if !p.accept(",") {
			break
		}
	}
	p.expect(")")
	sf.Result = p.parseType()
	if p.err != nil {
		return nil, p.err
	}
	e, err := ParseExpr(body)
	if err != nil {
		return nil, err
	}
	sf.Body = e
	return sf, nil
}

func parseMacro(s string) (*SpecFunc, error) {
	eq := strings.Index(s, "=")
	if eq < 0 {
		return nil, fmt.Errorf("macro f(params) = expr")
	}
	sig, body := strings.TrimSpace(s[:eq]), s[eq+1:]
	op := strings.Index(sig, "(")
	if op <= 0 || !strings.HasSuffix(sig, ")") {
		return nil, fmt.Errorf("macro f(params) = expr")
	}
	sf := &SpecFunc{Name: strings.TrimSpace(sig[:op])}
	for _, n := range strings.Split(sig[op+1:len(sig)-1], ",") {
		if n = strings.TrimSpace(n); n != "" {
			sf.Params = append(sf.Params, Param{n, nil})
		}
	}
	e, err := ParseExpr(body)
	if err != nil {
		return nil, err
	}
	sf.Body = e
	return sf, nil
}

// ghost field (*Conn).$frames int
func parseGhost(s string) (*GhostField, error) {
	s = strings.TrimSpace(strings.TrimPrefix(strings.TrimSpace(s), "field"))
	i := strings.Index(s, "$")
	if i < 0 {
		return nil, fmt.Errorf("ghost field T.$name type")
	}
	recv := strings.TrimSuffix(strings.TrimSpace(s[:i]), ".")
	rest := strings.Fields(s[i:])
	if len(rest) != 2 {
		return nil, fmt.Errorf("ghost field T.$name type")
	}
	p := newParser(rest[1])
	ty := p.parseType()
	if p.err != nil {
		return nil, p.err
	}
	return &GhostField{Recv: recv, Name: rest[0], Type: ty}, nil
}

// event Emitter "name" (T1, T2)
func parseEvent(s string) (*EventDecl, error) {
	p := newParser(s)
	ty := p.parseType()
	ev := &EventDecl{Emitter: ty.String()}
	n := p.advance()
	if n.kind != "string" {
		return nil, fmt.Errorf("event T \"name\" (types)")
	}
	ev.Event = n.text
	p.expect("(")
	for !p.isOp(")") && p.peek().kind != "eof" {
		ev.Types = append(ev.Types, p.parseType())
		if !p.accept(",") {
			break
		}
	}
	p.expect(")")
	return ev, p.err
}
