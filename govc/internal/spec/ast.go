// Package spec parses the contract language (Gobra-style //@ comments).
package spec

import "fmt"

// Pos is a source position of a contract line.
type Pos struct {
	File string
	Line int
}

func (p Pos) String() string { return fmt.Sprintf("%s:%d", p.File, p.Line) }

// Expr is a specification expression.
type Expr interface{ exprNode() }

type (
	Ident struct{ Name string }
	// Lit kinds: "int", "string", "char"
	Lit struct {
		Kind string
		Val  string // decoded value for string/char, text for int
	}
	Unary struct {
		Op string
		X  Expr
	}
	Binary struct {
		Op   string
		X, Y Expr
	}
	Cond  struct{ C, A, B Expr }
	Call  struct {
		Fun  Expr
		Args []Expr
	}
	Index   struct{ X, I Expr }
	SliceEx struct{ X, Lo, Hi Expr }
	Sel     struct {
		X    Expr
		Name string
	}
	Quant struct {
		Forall bool
		Var    string
		Type   *TypeExpr
		Body   Expr
	}
	// TypeExpr in expression position (argument of typeis, conversions).
	TypeExpr struct {
		Stars int
		Slice bool
		Pkg   string // qualifier as written ("" for local)
		Name  string
		MapKey, MapVal *TypeExpr // map[K]V (Name is "map")
	}
)

func (*Ident) exprNode()    {}
func (*Lit) exprNode()      {}
func (*Unary) exprNode()    {}
func (*Binary) exprNode()   {}
func (*Cond) exprNode()     {}
func (*Call) exprNode()     {}
func (*Index) exprNode()    {}
func (*SliceEx) exprNode()  {}
func (*Sel) exprNode()      {}
func (*Quant) exprNode()    {}
func (*TypeExpr) exprNode() {}

func (t *TypeExpr) String() string {
	s := ""
	if t.Slice {
		s += "[]"
	}
	for i := 0; i < t.Stars; i++ {
		s += "*"
	}
	if t.Pkg != "" {
		s += t.Pkg + "."
	}
	return s + t.Name
}

// Clause is one tagged expression of a contract.
type Clause struct {
	Tag  string // "C14.kind" or ""
	Expr Expr
	Text string
	Pos  Pos
}

// LoopSpec collects the clauses of one loop (by ordinal, 1-based, or label).
type LoopSpec struct {
	Ordinal    int
	Label      string
	Invariants []*Clause
	Assumes    []*Clause // assumed at the loop head without proof (reported as an unverified assumption)
	Decreases  *Clause
	Modifies   []Expr // extra havoc set (optional)
}

// CallSite is a block of assertions evaluated just before the n-th call to Callee.
type CallSite struct {
	Callee  string // function reference as written
	Ordinal int    // 1-based; 0 = every call
	Asserts []*Clause
	Assumes []*Clause // "assume expr": assumed just before the call (an invariant of shared state, listed as an assumption)
	Pos     Pos
	Cut     bool // "cutafter": Asserts are the invariants of a path join placed after the call
}

// Let is a macro.
type Let struct {
	Name string
	Expr Expr
}

// Param of a spec function.
type Param struct {
	Name string
	Type *TypeExpr
}

// FuncSpec is the contract of one function (or closure, or interface method).
type FuncSpec struct {
	Ref       string   // as written
	Key       string   // canonical key (filled by the resolver)
	Names     []string // optional parameter names as written (for externals without names)
	Requires  []*Clause
	Assumes   []*Clause // assumed at entry of the unit, not required of callers (listed as assumptions)
	Ensures   []*Clause
	Modifies  []Expr
	ModAll    bool // modifies *
	HasMod    bool
	Pure      bool
	NoEffect  bool
	Silent    bool // not an observable event (logging)
	Trusted   string // non-empty: body not verified, reason
	Lets      []*Let
	Loops     []*LoopSpec
	CallSites []*CallSite
	Cuts      []*CallSite
	NoInline  bool
	Inline    bool
	Fresh     bool   // result is a freshly allocated object
	Props     []string
	Pos       Pos
	Pkg       string // package path the contract file belongs to ("" for external spec files)
	External  bool
	Opts      map[string]string
	DynCalls  map[string]string // variable name -> "pure" | "noeffect": how calls through that func variable are treated
	Census    []*Census         // write-site censuses attached to this unit
	Monitors  []*Monitor        // mutexes treated as monitors: guarded locations are re-read when the lock is acquired
	Reenter   []*Reenter        // interference: what code reached through the named callees may do to this unit's state
}

// Census is a write-site census: "census [tag] (*T).f, (*T).g written only by F, (*T).m". The fields are assigned (stored
// to, or written through an atomic or mutex operation on them) by the listed functions and their closures only; every
// other function of the module that writes one of them fails the clause. Checked on the SSA of the whole module.
type Census struct {
	Shape   string   // non-empty: "shape F calls G, H" - the function F (typically one under a trusted summary) still makes static calls to G and H
	Fields  []string
	Writers []string
	Tag     string
	Text    string
	Pos     Pos
}

// Monitor declares that a mutex of the unit protects some locations: "monitor m.mu guards locs invariant inv". When the
// unit acquires the mutex, other goroutines may have changed the guarded locations since the unit last looked: they are
// forgotten and only the invariant is known about them; the invariant is an obligation when the mutex is released.
type Monitor struct {
	Lock   Expr
	Guards []Expr
	Inv    *Clause
	Pos    Pos
}

// Reenter is a rely clause of a unit: "reenter f, g modifies locs". Calls to f or g made by the unit may run code
// (listeners, callbacks, another goroutine woken by the call) that writes the listed locations; they are forgotten after
// each such call, on top of what the callee's own contract says.
type Reenter struct {
	Callees []string
	Mods    []Expr
	Keeping *Clause // what still holds of the forgotten locations (the other party keeps this invariant)
	Pos     Pos
}

// SpecFunc is a mathematical function usable in expressions.
type SpecFunc struct {
	Name   string
	Params []Param
	Result *TypeExpr
	Body   Expr
	Pos    Pos
	Pkg    string
}

// GhostField declares a ghost field on a struct type.
type GhostField struct {
	Recv string // type reference as written
	Name string // with leading $
	Type *TypeExpr
	Pos  Pos
	Pkg  string
}

// Axiom is a trusted global fact.
type Axiom struct {
	Clause *Clause
	Pkg    string
}

// Lemma is a closed formula to be proved from spec functions alone.
type Lemma struct {
	Name   string
	Clause *Clause
	Pkg    string
}

// EventDecl declares payload types of an emitter event.
type EventDecl struct {
	Emitter string
	Event   string
	Types   []*TypeExpr
	Pos     Pos
	Pkg     string
}

// File is one parsed contract file.
// Represents couples a ghost (model) field of an interface with the state of one implementing type:
// "represents (*transport) Transport.$writable = this._writable.v != 0". The implementing type's methods are then verified
// against the interface's model contracts with the ghost field read as that expression (refinement).
type Represents struct {
	Impl  string // implementing type as written, e.g. (*transport)
	Iface string // interface type as written
	Ghost string // ghost field name with $
	Expr  Expr
	Text  string
	Pos   Pos
	Pkg   string
}

// TypeInv is a data invariant of a struct type over fields that are never assigned after construction:
// "typeinv (*Timer) this.timer != nil". It is assumed for every pointer of that type the code gets hold of and proved, at
// the return of every function that allocates the struct, for the objects allocated there.
type TypeInv struct {
	Recv string // (*T) as written
	Expr Expr
	Text string
	Pos  Pos
	Pkg  string
}

// Footprint is a named list of locations with parameters: "footprint MapState(m) = MapOf(m.dirty), m.read.v, ...". A use
// MapState(x) in a modifies, guards or reenter list stands for the locations with x substituted for m.
type Footprint struct {
	Name   string
	Params []string
	Locs   []Expr
	Pos    Pos
}

// Subst replaces identifiers by expressions (capture is not an issue: footprints bind no variables).
func Subst(e Expr, m map[string]Expr) Expr {
	switch e := e.(type) {
	case *Ident:
		if r, ok := m[e.Name]; ok {
			return r
		}
		return e
	case *Unary:
		return &Unary{Op: e.Op, X: Subst(e.X, m)}
	case *Binary:
		return &Binary{Op: e.Op, X: Subst(e.X, m), Y: Subst(e.Y, m)}
	case *Cond:
		c := &Cond{C: Subst(e.C, m), A: Subst(e.A, m)}
		if e.B != nil {
			c.B = Subst(e.B, m)
		}
		return c
	case *Call:
		c := &Call{Fun: e.Fun}
		if _, isSel := e.Fun.(*Sel); isSel {
			c.Fun = Subst(e.Fun, m)
		}
		for _, a := range e.Args {
			c.Args = append(c.Args, Subst(a, m))
		}
		return c
	case *Index:
		return &Index{X: Subst(e.X, m), I: Subst(e.I, m)}
	case *SliceEx:
		r := &SliceEx{X: Subst(e.X, m)}
		if e.Lo != nil {
			r.Lo = Subst(e.Lo, m)
		}
		if e.Hi != nil {
			r.Hi = Subst(e.Hi, m)
		}
		return r
	case *Sel:
		return &Sel{X: Subst(e.X, m), Name: e.Name}
	case *Quant:
		return &Quant{Forall: e.Forall, Var: e.Var, Type: e.Type, Body: Subst(e.Body, m)}
	}
	return e
}

// ExpandFootprints replaces footprint uses in a location list.
func ExpandFootprints(locs []Expr, fps map[string]*Footprint) ([]Expr, error) {
	var out []Expr
	for _, l := range locs {
		inner := l
		var cond Expr
		if c, ok := l.(*Cond); ok && c.B == nil {
			inner, cond = c.A, c.C
		}
		call, ok := inner.(*Call)
		if !ok {
			out = append(out, l)
			continue
		}
		id, ok := call.Fun.(*Ident)
		if !ok || fps[id.Name] == nil {
			out = append(out, l)
			continue
		}
		fp := fps[id.Name]
		if len(call.Args) != len(fp.Params) {
			return nil, fmt.Errorf("footprint %s expects %d argument(s)", fp.Name, len(fp.Params))
		}
		m := map[string]Expr{}
		for i, p := range fp.Params {
			m[p] = call.Args[i]
		}
		for _, fl := range fp.Locs {
			e := Subst(fl, m)
			if cond != nil {
				e = &Cond{C: cond, A: e}
			}
			out = append(out, e)
		}
	}
	return out, nil
}

// Private declares that the fields of some struct types are only touched by the functions of one source file: the
// justification for assuming an invariant of those fields at the entry of that file's methods without requiring it of callers.
type Private struct {
	Types []string
	File  string
	Pos   Pos
	Pkg   string
}

type File struct {
	Privates []*Private
	Footprints []*Footprint
	TypeInvs []*TypeInv
	Reps     []*Represents
	Path     string
	Pkg      string
	Funcs    []*FuncSpec
	Specs    []*SpecFunc
	Ghosts   []*GhostField
	Axioms   []*Axiom
	Lemmas   []*Lemma
	Events   []*EventDecl
	Imports  map[string]string // alias -> import path (spec files)
	External bool
	Stable   []string // interface types whose parameterless non-Set methods are stable getters
}
