// Package solve discharges obligations with z3-new, z3 and cvc5.
package solve

import (
	"bytes"
	"context"
	"fmt"
	"os"
	"os/exec"
	"path/filepath"
	"strings"
	"sync"
	"time"

	"govc/internal/smt"
	"govc/internal/vc"
)

// Status of one obligation instance.
type Status struct {
	Result  string // unsat, sat, unknown, timeout, error
	Backend string
	Ms      int64
	Model   string
	Output  string
	File    string
}

// Options configure a run.
type Options struct {
	TmpDir      string
	BatchMs     int // per-query timeout in the batch (stage 1)
	SingleMs    int // wall-clock limit per obligation in the race (stage 2)
	AllBackends bool // thorough: run every backend on every obligation and compare
	KeepFiles   bool
}

var Solvers = []struct{ Name, Bin string }{
	{"z3-5.1.0", "z3-new"},
	{"z3-4.8.12", "z3"},
	{"cvc5-1.0", "cvc5"},
}

func solverArgs(name string, file string, ms int) []string {
	switch name {
	case "z3-5.1.0", "z3-4.8.12":
		return []string{"-smt2", fmt.Sprintf("-t:%d", ms), file}
	default:
		return []string{"--lang=smt2", "--incremental", fmt.Sprintf("--tlimit-per=%d", ms), file}
	}
}

func queryText(o *vc.Obligation) string {
	var sb strings.Builder
	for _, a := range o.PC {
		sb.WriteString("(assert ")
		sb.WriteString(a.S)
		sb.WriteString(")\n")
	}
	sb.WriteString("(assert ")
	sb.WriteString(smt.Not(o.Goal).S)
	sb.WriteString(")\n")
	return sb.String()
}

func safeName(s string) string {
	r := strings.NewReplacer("/", "_", " ", "_", "(", "", ")", "", "*", "p", ":", "_", "#", "_", "<", "_", ">", "_", ",", "_", "$", "_", "[", "_", "]", "_", "\"", "", "|", "_", "&", "_", "=", "_", "!", "_", "'", "_", "?", "_", ";", "_")
	s = r.Replace(s)
	if len(s) > 150 {
		s = s[:150]
	}
	return s
}

// Unit solves every obligation of a unit result. The returned slice is parallel to res.Obligations.
func Unit(res *vc.UnitResult, opt Options) ([]Status, error) {
	out := make([]Status, len(res.Obligations))
	if len(res.Obligations) == 0 {
		return out, nil
	}
	if len(res.Obligations) > 8000 {
		return nil, fmt.Errorf("%s generates %d obligation instances (cap 8000): the function is outside the reach of path enumeration; restrict the unit (opt stopafter) or drop its contract", res.Unit, len(res.Obligations))
	}
	if len(res.Header) > 8<<20 {
		return nil, fmt.Errorf("SMT header of %s exceeds the 8 MB cap (%d bytes)", res.Unit, len(res.Header))
	}
	dir := filepath.Join(opt.TmpDir, safeName(res.Unit))
	if err := os.MkdirAll(dir, 0o755); err != nil {
		return nil, err
	}
	// stage 0: folded goals
	var pending []int
	for i, o := range res.Obligations {
		if o.Goal.IsTrue() && !o.Cover {
			out[i] = Status{Result: "unsat", Backend: "constant-folding"}
			continue
		}
		pending = append(pending, i)
	}
	// stage 1: incremental batch runs; obligations that share a path condition share one push, and their goals
	// are first tried as one conjunction. The batch is tried on each back end in turn (short per-query limit);
	// only what is still open goes on to the next one.
	type query struct {
		goal string // negated goal to assert ("" = none: satisfiability of the path condition)
		idxs []int
	}
	type grp struct {
		pc      string
		queries []*query
	}
	pcOf := func(o *vc.Obligation) string {
		var sb strings.Builder
		for _, a := range o.PC {
			sb.WriteString("(assert ")
			sb.WriteString(a.S)
			sb.WriteString(")\n")
		}
		return sb.String()
	}
	runBatch := func(solver, bin string, name string, groups []*grp) (map[*query]string, int64, error) {
		var sb strings.Builder
		sb.WriteString("(set-logic ALL)\n")
		sb.WriteString(res.Header)
		var order []*query
		for _, g := range groups {
			sb.WriteString("(push 1)\n")
			sb.WriteString(g.pc)
			for _, q := range g.queries {
				if q.goal == "" {
					sb.WriteString("(check-sat)\n")
				} else {
					sb.WriteString("(push 1)\n(assert ")
					sb.WriteString(q.goal)
					sb.WriteString(")\n(check-sat)\n(pop 1)\n")
				}
				order = append(order, q)
			}
			sb.WriteString("(pop 1)\n")
		}
		file := filepath.Join(dir, name)
		if err := os.WriteFile(file, []byte(sb.String()), 0o644); err != nil {
			return nil, 0, err
		}
		t0 := time.Now()
		total := time.Duration(opt.BatchMs*len(order)+20000) * time.Millisecond
		ctx, cancel := context.WithTimeout(context.Background(), total)
		outb, _ := exec.CommandContext(ctx, bin, solverArgs(solver, file, opt.BatchMs)...).CombinedOutput()
		cancel()
		lines := answerLines(string(outb))
		if strings.Contains(string(outb), "(error") && !strings.Contains(string(outb), "canceled") {
			if solver == "cvc5-1.0" || solver == "z3-5.1.0" {
				return nil, 0, fmt.Errorf("solver error on %s: %s", file, firstError(string(outb)))
			}
			// other back ends may reject constructs; treat as no answer
			lines = nil
		}
		if !opt.KeepFiles {
			os.Remove(file)
		}
		m := map[*query]string{}
		for k, q := range order {
			if k < len(lines) {
				m[q] = lines[k]
			} else {
				m[q] = "timeout"
			}
		}
		return m, time.Since(t0).Milliseconds(), nil
	}
	// initial grouping: conjunction per path condition
	var groups []*grp
	byPC := map[string]*grp{}
	conj := map[*grp]*query{}
	for _, i := range pending {
		o := res.Obligations[i]
		k := pcOf(o)
		g := byPC[k]
		if g == nil {
			g = &grp{pc: k}
			byPC[k] = g
			groups = append(groups, g)
		}
		if o.Cover {
			var cq *query
			for _, q := range g.queries {
				if q.goal == "" {
					cq = q
				}
			}
			if cq == nil {
				cq = &query{}
				g.queries = append(g.queries, cq)
			}
			cq.idxs = append(cq.idxs, i)
			continue
		}
		q := conj[g]
		if q == nil {
			q = &query{}
			conj[g] = q
			g.queries = append([]*query{q}, g.queries...)
		}
		q.idxs = append(q.idxs, i)
	}
	for _, q := range conj {
		var sb strings.Builder
		sb.WriteString("(not (and true")
		for _, i := range q.idxs {
			sb.WriteString(" ")
			sb.WriteString(res.Obligations[i].Goal.S)
		}
		sb.WriteString("))")
		q.goal = sb.String()
	}
	// reachability (cover) queries expect "sat": they go to z3 with a short limit, separately from the proofs
	var coverGroups, proofGroups []*grp
	for _, g := range groups {
		cg := &grp{pc: g.pc}
		pg := &grp{pc: g.pc}
		for _, q := range g.queries {
			if q.goal == "" {
				cg.queries = append(cg.queries, q)
			} else {
				pg.queries = append(pg.queries, q)
			}
		}
		if len(cg.queries) > 0 {
			coverGroups = append(coverGroups, cg)
		}
		if len(pg.queries) > 0 {
			proofGroups = append(proofGroups, pg)
		}
	}
	// reachability only needs one witness per unit: the precondition check and a handful of return paths are asked
	if len(coverGroups) > 8 {
		var keep []*grp
		for _, g := range coverGroups {
			isVac := false
			for _, q := range g.queries {
				for _, i := range q.idxs {
					if res.Obligations[i].Kind == "vacuity" {
						isVac = true
					}
				}
			}
			if isVac || len(keep) < 8 {
				keep = append(keep, g)
			} else {
				for _, q := range g.queries {
					for _, i := range q.idxs {
						out[i] = Status{Result: "unknown", Backend: "not asked (sampled)"}
					}
				}
			}
		}
		coverGroups = keep
	}
	if len(coverGroups) > 0 {
		saved := opt.BatchMs
		opt.BatchMs = 400
		ans, _, err := runBatch("z3-5.1.0", "z3-new", "cover.smt2", coverGroups)
		opt.BatchMs = saved
		if err != nil {
			return nil, err
		}
		for _, g := range coverGroups {
			for _, q := range g.queries {
				for _, i := range q.idxs {
					out[i] = Status{Result: ans[q], Backend: "z3-5.1.0"}
				}
			}
		}
	}
	order := []struct{ name, bin string }{{"cvc5-1.0", "cvc5"}, {"z3-5.1.0", "z3-new"}, {"z3-4.8.12", "z3"}}
	open := proofGroups
	for round, sv := range order {
		if len(open) == 0 {
			break
		}
		savedMs := opt.BatchMs
		if round > 0 {
			// the later back ends only get a short limit: what is still open goes to the per-obligation race
			opt.BatchMs = 600
		}
		ans, el, err := runBatch(sv.name, sv.bin, fmt.Sprintf("batch%d.smt2", round), open)
		opt.BatchMs = savedMs
		if err != nil {
			return nil, err
		}
		nq := 0
		for _, g := range open {
			nq += len(g.queries)
		}
		per := el / int64(nq+1)
		var next []*grp
		for _, g := range open {
			ng := &grp{pc: g.pc}
			for _, q := range g.queries {
				r := ans[q]
				if q.goal == "" {
					// cover query: sat is the expected answer
					for _, i := range q.idxs {
						if out[i].Result == "" || r == "sat" || r == "unsat" {
							out[i] = Status{Result: r, Backend: sv.name, Ms: per}
						}
					}
					// "unknown" on a satisfiability query is not retried: it cannot show vacuity
					continue
				}
				for _, i := range q.idxs {
					if r == "unsat" || out[i].Result == "" || out[i].Result == "timeout" || out[i].Result == "unknown" {
						out[i] = Status{Result: r, Backend: sv.name, Ms: per / int64(len(q.idxs))}
					}
				}
				if r == "unsat" {
					continue
				}
				if len(q.idxs) > 1 {
					// split the conjunction for the next round
					for _, i := range q.idxs {
						ng.queries = append(ng.queries, &query{goal: smt.Not(res.Obligations[i].Goal).S, idxs: []int{i}})
					}
				} else {
					ng.queries = append(ng.queries, q)
				}
			}
			if len(ng.queries) > 0 {
				next = append(next, ng)
			}
		}
		// a split conjunction should be retried on the same back end first
		if round == 0 && len(next) > 0 {
			ans2, el2, err := runBatch(sv.name, sv.bin, "batch0b.smt2", next)
			if err != nil {
				return nil, err
			}
			_ = el2
			var next2 []*grp
			for _, g := range next {
				ng := &grp{pc: g.pc}
				for _, q := range g.queries {
					r := ans2[q]
					for _, i := range q.idxs {
						if r == "unsat" || r == "sat" && q.goal == "" || out[i].Result == "" || out[i].Result == "timeout" || out[i].Result == "unknown" {
							out[i] = Status{Result: r, Backend: sv.name, Ms: per}
						}
					}
					if r == "unsat" || q.goal == "" && r == "sat" {
						continue
					}
					ng.queries = append(ng.queries, q)
				}
				if len(ng.queries) > 0 {
					next2 = append(next2, ng)
				}
			}
			next = next2
		}
		open = next
	}
	// stage 2: individual race for everything that is not as expected. Instances of one named obligation are
	// tried one after the other and the first definitive failure stops the name (the other instances inherit it).
	byName := map[string][]int{}
	crossChecked := map[string]bool{}
	var names []string
	for _, i := range pending {
		o := res.Obligations[i]
		need := false
		if o.Cover {
			need = false
		} else {
			need = out[i].Result != "unsat"
		}
		if opt.AllBackends && !o.Cover && !need {
			// thorough tier: every named obligation is put to all three back ends on one of its path instances (agreement
			// check); the other instances keep the batch answer
			if !crossChecked[o.Name] {
				crossChecked[o.Name] = true
				need = true
			}
		}
		if !need {
			continue
		}
		if _, ok := byName[o.Name]; !ok {
			names = append(names, o.Name)
		}
		byName[o.Name] = append(byName[o.Name], i)
	}
	var wg sync.WaitGroup
	sem := make(chan struct{}, 6)
	for _, name := range names {
		wg.Add(1)
		go func(idx []int) {
			defer wg.Done()
			sem <- struct{}{}
			defer func() { <-sem }()
			for k, i := range idx {
				st := single(res, i, dir, opt, out[i])
				out[i] = st
				if st.Result != "unsat" {
					for _, j := range idx[k+1:] {
						if out[j].Result == "unsat" {
							out[j] = Status{Result: "unknown", Backend: st.Backend, Output: "not tried: another instance of this obligation already failed"}
						}
					}
					return
				}
			}
		}(byName[name])
	}
	wg.Wait()
	return out, nil
}

func firstError(s string) string {
	for _, l := range strings.Split(s, "\n") {
		if strings.Contains(l, "(error") {
			return l
		}
	}
	return ""
}

func answerLines(s string) []string {
	var out []string
	for _, l := range strings.Split(s, "\n") {
		l = strings.TrimSpace(l)
		switch l {
		case "sat", "unsat", "unknown", "timeout":
			out = append(out, l)
		}
	}
	return out
}

// single races the three solvers on one obligation.
func single(res *vc.UnitResult, i int, dir string, opt Options, prev Status) Status {
	o := res.Obligations[i]
	var sb strings.Builder
	sb.WriteString("(set-option :produce-models true)\n(set-logic ALL)\n")
	sb.WriteString(res.Header)
	sb.WriteString(queryText(o))
	sb.WriteString("(check-sat)\n")
	file := filepath.Join(dir, fmt.Sprintf("%s.%d.smt2", safeName(strings.TrimPrefix(o.Name, res.Unit+"/")), i))
	os.WriteFile(file, []byte(sb.String()), 0o644)
	type ans struct {
		solver string
		result string
		ms     int64
		out    string
	}
	ctx, cancel := context.WithTimeout(context.Background(), time.Duration(opt.SingleMs+2000)*time.Millisecond)
	defer cancel()
	ch := make(chan ans, len(Solvers))
	for _, s := range Solvers {
		go func(name, bin string) {
			t0 := time.Now()
			var args []string
			switch name {
			case "cvc5-1.0":
				args = []string{"--lang=smt2", fmt.Sprintf("--tlimit=%d", opt.SingleMs), file}
			default:
				args = []string{"-smt2", fmt.Sprintf("-T:%d", (opt.SingleMs+999)/1000), file}
			}
			b, _ := exec.CommandContext(ctx, bin, args...).CombinedOutput()
			ls := answerLines(string(b))
			r := "timeout"
			if len(ls) > 0 {
				r = ls[0]
			} else if strings.Contains(string(b), "(error") {
				r = "error"
			}
			ch <- ans{name, r, time.Since(t0).Milliseconds(), string(b)}
		}(s.Name, s.Bin)
	}
	var all []ans
	best := Status{Result: "timeout", File: file}
	for range Solvers {
		a := <-ch
		all = append(all, a)
		if a.result == "unsat" && best.Result != "unsat" {
			best = Status{Result: "unsat", Backend: a.solver, Ms: a.ms, File: file}
			if !opt.AllBackends {
				cancel()
			}
		}
		if a.result == "sat" && best.Result != "unsat" && best.Result != "sat" {
			best = Status{Result: "sat", Backend: a.solver, Ms: a.ms, File: file}
			if !opt.AllBackends {
				cancel()
			}
		}
		if a.result == "unknown" && best.Result == "timeout" {
			best = Status{Result: "unknown", Backend: a.solver, Ms: a.ms, File: file}
		}
	}
	var summary []string
	sawSat, sawUnsat := false, false
	for _, a := range all {
		summary = append(summary, fmt.Sprintf("%s:%s(%dms)", a.solver, a.result, a.ms))
		if a.result == "sat" {
			sawSat = true
		}
		if a.result == "unsat" {
			sawUnsat = true
		}
		if a.result == "error" {
			summary = append(summary, firstError(a.out))
		}
	}
	best.Output = strings.Join(summary, " ")
	if sawSat && sawUnsat {
		best.Result = "error"
		best.Output = "BACKENDS DISAGREE: " + best.Output
	}
	if best.Result == "sat" && !o.Cover {
		var terms []string
		all := append(append([]vc.ModelTerm(nil), o.ModelTerms...), res.ModelTerms...)
		for _, mt := range all {
			terms = append(terms, mt.Term)
		}
		// minimise: a replay must not have to allocate a 2^40-byte payload. The query is re-solved with every 64-bit input
		// bounded (as a signed value) by 2^8, then 2^16, then 2^24; the first bound that keeps it satisfiable is used.
		var sized []string
		for _, mt := range all {
			if mt.Entry && mt.Sort == "(_ BitVec 64)" {
				sized = append(sized, mt.Term)
			}
		}
		vals, err := map[string]string(nil), fmt.Errorf("not tried")
		if len(sized) > 0 {
			for _, bound := range []uint64{1 << 8, 1 << 16, 1 << 24} {
				var sb strings.Builder
				for _, t := range sized {
					fmt.Fprintf(&sb, "(assert (and (bvsle (bvneg #x%016x) %s) (bvsle %s #x%016x)))\n", bound, t, t, bound)
				}
				if v, e := valuesWith(file, terms, sb.String()); e == nil {
					vals, err = v, nil
					break
				}
			}
		}
		if err != nil {
			vals, err = Values(file, terms)
		}
		if err == nil {
			var sb strings.Builder
			for _, mt := range all {
				if v, ok := vals[mt.Term]; ok {
					fmt.Fprintf(&sb, "%s = %s\n", mt.Label, v)
				}
			}
			best.Model = sb.String()
		} else {
			best.Model = "model extraction failed: " + err.Error()
		}
	}
	if best.Result == "unsat" && !opt.KeepFiles {
		os.Remove(file)
	}
	return best
}

// Model asks z3-new for a model of the (satisfiable) file.
func Model(file string, terms []string) string {
	data, err := os.ReadFile(file)
	if err != nil {
		return ""
	}
	mf := file + ".model.smt2"
	extra := "(get-model)\n"
	os.WriteFile(mf, append(data, []byte(extra)...), 0o644)
	defer os.Remove(mf)
	ctx, cancel := context.WithTimeout(context.Background(), 30*time.Second)
	defer cancel()
	b, _ := exec.CommandContext(ctx, "z3-new", "-smt2", "-T:20", mf).CombinedOutput()
	s := string(b)
	if i := bytes.IndexByte(b, '\n'); i >= 0 {
		s = s[i+1:]
	}
	if len(s) > 200000 {
		s = s[:200000] + "\n…(truncated)"
	}
	return s
}

// Values evaluates terms in a model of the file (used for counterexample reports and replay drivers).
func Values(file string, terms []string) (map[string]string, error) {
	return valuesWith(file, terms, "")
}

// valuesWith is Values with extra assertions inserted before the (check-sat) of the file.
func valuesWith(file string, terms []string, extra string) (map[string]string, error) {
	data, err := os.ReadFile(file)
	if err != nil {
		return nil, err
	}
	if extra != "" {
		s := string(data)
		i := strings.LastIndex(s, "(check-sat)")
		if i < 0 {
			return nil, fmt.Errorf("no check-sat")
		}
		data = []byte(s[:i] + extra + s[i:])
	}
	var sb strings.Builder
	sb.Write(data)
	for _, t := range terms {
		fmt.Fprintf(&sb, "(echo \"@@\")\n(get-value (%s))\n", t)
	}
	mf := file + ".values.smt2"
	os.WriteFile(mf, []byte(sb.String()), 0o644)
	defer os.Remove(mf)
	out := map[string]string{}
	for _, bin := range []string{"z3-new", "z3"} {
		ctx, cancel := context.WithTimeout(context.Background(), 40*time.Second)
		b, _ := exec.CommandContext(ctx, bin, "-smt2", "-T:30", mf).CombinedOutput()
		cancel()
		parts := strings.Split(string(b), "@@")
		if len(parts) == 0 || !strings.HasPrefix(strings.TrimSpace(parts[0]), "sat") {
			continue
		}
		for k, part := range parts[1:] {
			if k >= len(terms) {
				break
			}
			v := strings.TrimSpace(part)
			v = strings.TrimPrefix(v, "((")
			v = strings.TrimSuffix(v, "))")
			v = strings.TrimSpace(strings.TrimPrefix(v, terms[k]))
			if !strings.Contains(v, "error") {
				out[terms[k]] = strings.Join(strings.Fields(v), " ")
			}
		}
		return out, nil
	}
	return nil, fmt.Errorf("no solver reproduced sat for value extraction")
}
