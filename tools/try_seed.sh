#!/bin/bash
# try_seed.sh <patch.diff> <prop> [more props...] : applies a patch to /repo, runs the quick checks, reverts.
# Prints the VIOLATION lines (names only). /repo must be clean.
patch=$1; shift
cd /repo || exit 2
if [ -n "$(git status --porcelain | grep -v zz_contracts_verif.go)" ]; then echo "repo not clean"; exit 2; fi
git apply "$patch" || { echo "patch does not apply"; exit 3; }
trap "git -C /repo apply -R '$patch'" EXIT
export GOFLAGS=-mod=mod GOPROXY=off
go build ./... || { echo "DOES NOT BUILD"; exit 4; }
for p in "$@"; do
  out=$(cd /verif && ./check $p quick -evidence /var/tmp/seed-ev-$p.json -replays /var/tmp/seed-replays 2>&1)
  echo "--- $p exit=$?"
  echo "$out" | grep -E "^VIOLATION|ENGINE-PROBLEM|^property" | sed 's/replay=[^ ]* //' | cut -c1-260
done
rm -rf /var/tmp/seed-replays /var/tmp/seed-ev-*.json
