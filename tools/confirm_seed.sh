#!/bin/bash
# confirm_seed.sh <prop> <n> [source root] [target n] : confirms seed /tmp/seed/<prop>/out/<n> in a scratch worktree of /repo:
# (1) builds with the patch, (2) existing suite passes with the patch, (3) demo fails with the patch, (4) demo passes without.
# On success the seed is stored as /verif/seeded/<prop>-<n>/ (patch.diff, demo, notes.md, confirm.log).
prop=$1; n=$2; root=${3:-/tmp/seed}; tn=${4:-$n}
src=$root/$prop/out/$n
export GOFLAGS=-mod=mod GOPROXY=off
wt=$(mktemp -d /var/tmp/confirm-$prop-$tn-XXXX)
log=$wt.log
trap "git -C /repo worktree remove --force $wt >/dev/null 2>&1; rm -rf $wt" EXIT
git -C /repo worktree add --detach $wt HEAD -q || exit 2
cd $wt
demos=$(ls $src/*_test.go 2>/dev/null)
[ -z "$demos" ] && { echo "$prop-$n: no demo test"; exit 1; }
pkgdir=engine
grep -q "^package types" $demos && pkgdir=types
grep -q "^package transports" $demos && pkgdir=transports
grep -q "^package webtransport" $demos && pkgdir=webtransport
grep -q "^package utils" $demos && pkgdir=utils
tests=$(grep -ho "^func Test[A-Za-z0-9_]*" $demos | sed 's/func //' | paste -sd'|')
{
echo "seed $prop-$n  demo package: $pkgdir  tests: $tests"
git apply $src/patch.diff || { echo "RESULT: patch does not apply"; exit 1; }
go build ./... && echo "BUILD-WITH-CHANGE: ok" || { echo "RESULT: does not build"; exit 1; }
if go test -vet=off -count=1 -timeout 600s ./... > suite.out 2>&1; then echo "SUITE-WITH-CHANGE: pass"; else echo "SUITE-WITH-CHANGE: FAIL"; tail -20 suite.out; echo "RESULT: suite fails"; exit 1; fi
cp $demos $pkgdir/
if go test -vet=off -count=1 -timeout 300s -run "^($tests)\$" ./$pkgdir/ > demo_with.out 2>&1; then echo "DEMO-WITH-CHANGE: pass (expected fail)"; echo "RESULT: demo does not fail with the change"; exit 1; else echo "DEMO-WITH-CHANGE: fail (as required)"; grep -E "^(--- FAIL|FAIL|panic)" demo_with.out | head -5; fi
git apply -R $src/patch.diff
if go test -vet=off -count=1 -timeout 300s -run "^($tests)\$" ./$pkgdir/ > demo_without.out 2>&1; then echo "DEMO-WITHOUT-CHANGE: pass (as required)"; else echo "DEMO-WITHOUT-CHANGE: FAIL"; tail -20 demo_without.out; echo "RESULT: demo fails on the unchanged tree"; exit 1; fi
echo "RESULT: confirmed"
} > $log 2>&1
r=$(grep "^RESULT" $log)
echo "$prop-$tn: $r"
if [ "$r" = "RESULT: confirmed" ]; then
  d=/verif/seeded/$prop-$tn; mkdir -p $d
  cp $src/patch.diff $d/; cp $demos $d/; [ -f $src/notes.md ] && cp $src/notes.md $d/; cp $log $d/confirm.log
  echo "$pkgdir" > $d/demo_pkg.txt
else
  mkdir -p /var/tmp/seed-rejected; cp $log /var/tmp/seed-rejected/$prop-$tn.log
fi
rm -f $log
