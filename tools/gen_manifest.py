#!/usr/bin/env python3
"""Regenerates /verif/MANIFEST.json from the table below (claimed checks) and properties.jsonl."""
import json, subprocess
props = [json.loads(l) for l in open('/verif/properties.jsonl')]
TECH = ("contract-based deductive verification: VC generation (forward symbolic execution with loop cutting) over go/ssa of the real code, "
        "contracts in build-tagged comment files zz_contracts_verif.go, obligations discharged by cvc5 1.0 / z3 5.1.0 / z3 4.8.12")
NOTE = ("Sequential single-call reasoning (no interference from other goroutines; atomics as plain fields); Emit and listener registration run no code that "
        "changes verified state; partial correctness; trusted contracts of external code and of the in-repo code outside the subset (types/map.go, timers, "
        "parameter bag, Set) are listed per run under coverage.trusted_base; govc and the solvers are trusted.")
claimed = {
 'C01': ("Sequential core of outbound delivery: sendPacket appends exactly one packet at the tail after packetCreate and flushes; flush hands the whole buffer over exactly once iff not closed, writable and non-empty (the batch is the AllAndClear copy, in order), Slice.Push/AllAndClear are proved against the sequence view for all lengths. Interleavings, the codec and liveness are not decided.", "5 (C01)"),
 'C02': ("Sequential core of inbound delivery: polling.OnData hands each decoded packet to OnPacket once, in order, and stops at the first close packet (loop invariant over the decoded slice); onDataRequest hands exactly one buffer to OnData, a BytesBuffer iff the request is binary; socket.onPacket emits one 'data' and one 'message' per MESSAGE packet in state open and none otherwise. The payload decoder is a dependency (assumed), JSONP un-escaping and the WebSocket/WebTransport reader goroutines are not decided.", "5 (C02)"),
 'C03': ("Per-call lifecycle clauses: OnClose emits exactly one close with the reason after setting the state to closed and before nothing else, and is silent when already closed; onPacket/sendPacket/flush are silent in the closed states; Close acts only in state open; forced-close callback reason; MakeSocket starts in opening. Races between close causes are not decided.", "5 (C03)"),
 'C04': ("Per-call registry clauses: a successful Handshake stores the new session under its id, adds exactly one to the count and registers exactly one close listener on that session; the listener deletes exactly that id and subtracts one (64-bit wrap-around proved); rejected handshakes touch neither; unknown sid is answered UNKNOWN_SID; GenerateId appends the old sequence number big-endian and increments it once. types.Map is a trusted model; quiescence under interleavings is not decided.", "5 (C04)"),
 'C05': ("The documented error table (init obligations), ComputePath for every attach-option combination, and Verify proved equal to the precedence table for every combination of query, headers, registry and hook outcome.", "5 (C05)"),
 'C06': ("Handshake success path: exactly one NewSocket with protocol 4 iff EIO==4 (3 only when allowed), stored before the close hook is registered, exactly one 'connection' event and no 'connection_error'. The open packet contents (onOpen) are not yet under contract.", "5 (C06)"),
 'C07': ("Heartbeat decision logic: timeout duration per revision, v3 ping -> refresh+pong+heartbeat, v4 pong -> clear deadline then re-arm interval, wrong direction -> exactly one transport error and nothing else; timers cleared on close. The timer API itself is trusted (C19 not applicable), so deadlines are proved relative to a correct timer.", "5 (C07)"),
 'C08': ("Upgrade gating and the upgrade closures: an upgraded WebSocket is admitted as candidate only for a known session that is neither upgrading nor upgraded (every other case closes the candidate and calls nothing on the session); MaybeUpgrade arms flag, timeout and the four listeners and touches nothing else; probe ping -> probe pong on the candidate; upgrade packet on a non-closed session -> cleanup, discard old, clearTransport, setTransport(candidate), upgrade event, flush, in that order; every other packet, candidate error/close, session close and the timeout clean up (flag cleared, timers cleared, listeners removed) and close only the candidate. Multi-party timing (lost probe, candidate closing before listeners attach) is not decided.", "5 (C08)"),
 'C10': ("The limit reaches every inbound path: WebTransport advanceFrame enforces readLimit for every frame header (bit-vector proof) and the limit is installed before the first read; the WebSocket upgrade installs SetReadLimit(maxHttpBufferSize) before onWebSocket; polling onDataRequest answers 413 for a declared length above the limit, bounds bodies of undeclared length with MaxBytesReader and hands OnData nothing larger; Handshake copies the limit to the transport. gorilla's enforcement and net/http's body accounting are trusted.", "5 (C10)"),
 'C11': ("Polling discipline per call: overlapping poll/data requests are answered 400 with one write and a transport error, leaving the pending request in place; every return path of onDataRequest has written exactly one response and 'ok' only after OnData returned; HttpContext.Write never writes twice. Overlap between handler goroutines (check-then-act on p.req) is not decided.", "5 (C11)"),
 'C12': ("Close decision table (discard / not open / buffered -> wait for drain / empty -> close now), closeTransport order (discard before close) and the forced-close reason of its callback.", "5 (C12)"),
 'C13': ("Every write path of the framing layer that is in the subset (WriteMessage fast and writer path, NextWriter, Write, Close, flushFrame, beginMessage, NewConn) against 'one message = one frame': counted stream writes, buffer content invariants with unbounded quantifiers. The two places where the real code splits a message are recorded known findings with their input classes.", "5 (C13), Appendix E.1"),
 'C14': ("Encoder (flushFrame, Conn.write) and decoder (advanceFrame, read, setReadRemaining) are proved equal to the Engine.IO WebTransport frame format for every kind and every 64-bit length (bit-vector proof, no bound).", "2.3, 5 (C14), Appendix C"),
 'C15': ("No-panic, read-limit, non-negativity, sticky-error and EOF-mapping clauses of setReadRemaining, read, advanceFrame, NextReader, messageReader.Read, SetReadLimit for every byte stream (the stream is an uninterpreted function of position), every limit and every buffer state satisfying the stated preconditions.", "5 (C15), Appendix C"),
 'C18': ("Per hand-off event/callback order and counts: packetCreate before the push, flush event before the callback group is queued before Send before drain, one callback group per drain with each callback once; the 'no Emit under flushMu' clause fails at four call sites, recorded as known findings (self-deadlock on re-entrant Send/Close).", "5 (C18)"),
 'C20': ("types.Slice methods against the sequence view for all lengths/indices/counts: error instead of panic, content, lock released on all paths, and no shared storage with caller slices (backing array is the old one or fresh; frame excludes the caller's memory). Three storage/panic defects were found, repaired by fix: commits and stay under check. types/map.go, linearizability and concurrent uniqueness are not decided.", "5 (C20), Appendix E.2"),
}
na_reason = {
 'C19': "utils/timer.go consists of goroutine spawns, select over runtime timer channels and time.Timer calls; the property is about the relative order of runtime firing, waiting goroutine and canceller, which no pre/postcondition on these functions can express and the sequential VC generator excludes by construction (DESIGN.md section 5, C19); the timer API is a trusted contract wherever other properties use it",
}
checks = []
for pid in sorted(claimed):
    text, ref = claimed[pid]
    checks.append({"property_id": pid, "quick_cmd": "./check %s quick" % pid, "thorough_cmd": "./check %s thorough" % pid,
                   "evidence_file": "evidence/%s.json" % pid, "replay_cmd_template": "./check replay {path}", "engine": "govc",
                   "level_claimed": {"category": "proof", "text": text, "design_ref": ref}, "level_note": NOTE, "technique": TECH})
na = []
for p in props:
    if p['id'] in claimed:
        continue
    na.append({"property_id": p['id'], "reason": na_reason.get(p['id'], "contracts for this property are not written yet (work in progress; planned obligations in DESIGN.md section 5)")})
commits = subprocess.check_output(['git', '-C', '/repo', 'log', '--format=%h %s', 'b268585..HEAD']).decode().splitlines()
hooks = [c.split()[0] for c in commits if 'verif hook' in c]
m = {"version": 1,
     "setup_cmd": "cd /verif/govc && GOFLAGS=-mod=vendor GOPROXY=off go build -o /verif/bin/govc ./cmd/govc && cd /repo && GOFLAGS=-mod=mod GOPROXY=off go build -tags verif ./...",
     "hooks": {"guard": "verif", "enable": "go build -tags verif (the hook files are comment-only contract files zz_contracts_verif.go; govc loads the packages with -tags=verif)",
               "baseline_off_cmd": "cd /repo && go build ./... && go test -vet=off -count=1 ./...", "source_commits": hooks, "add_only": True},
     "engines": [{"name": "govc", "path": "/verif/govc", "serves_properties": sorted(claimed),
                  "kind_free_text": "deductive verifier written for this task: go/packages+go/ssa front end, Gobra-style contracts in //@ comments, forward symbolic execution with loop cutting, SMT-LIB2 obligations raced on cvc5/z3"}],
     "checks": checks, "not_applicable": na,
     "notes": "Every check rebuilds SSA from /repo's working tree on each run. Exit 0: all obligations of the property discharged (KNOWN-FINDING lines for recorded defects); exit 1 + VIOLATION lines: a named obligation failed; exit 2 + ENGINE-PROBLEM: the verifier could not process the tree (neither pass nor violation). fix: commits in /repo: " + "; ".join(c for c in commits if c.split()[1] == 'fix:')}
json.dump(m, open('/verif/MANIFEST.json', 'w'), indent=1)
print("claimed:", sorted(claimed), "n/a:", [x['property_id'] for x in na])
