#!/bin/bash
# pin_all.sh [props...]: records, per property, the obligations discharged on the current (unchanged) tree in
# expected-obligations.json (vacuity guard: a later run that generates far fewer obligations, loses a function under
# contract, or can no longer process a function that verified here, is reported). Run after every contract change.
cd "$(dirname "$0")/.."
props="$@"
if [ -z "$props" ]; then props=$(python3 -c "import json;print(' '.join(c['property_id'] for c in json.load(open('MANIFEST.json'))['checks']))"); fi
for p in $props; do ./check $p quick -pin | tail -1; done
