#!/usr/bin/env python3
"""Runs the quick check of the seed's property against every seeded change in /verif/seeded and writes meta.json next to
each patch plus seeded/MATRIX.md. Each seed is applied to a scratch copy of /repo's working tree (outside /repo and
/verif, removed afterwards; the check is pointed at it with VERIF_REPO), four at a time, so /repo itself is never
touched. Usage: seed_matrix.py [seed-id ...]"""
import json, os, subprocess, sys, re, glob
NEEDS = {
 'C01-1': "two flushes overlapping: a ready-triggered flush preempted between taking its batch and Send while the application sends the next message",
 'C01-2': "websocket without per-message deflate, one shared pre-encoded options object used for at least two sends",
 'C02-1': "JSONP transport and a message containing a literal backslash followed by n",
 'C02-2': "a fault while reading a WebSocket frame body (TCP loss mid-frame, or fragmented message crossing the size limit on a continuation frame)",
 'C03-1': "polling handshake, completed websocket upgrade, then an error reported by the discarded polling transport",
 'C03-2': "upgrade in progress, a close cause firing, and the client's upgrade packet handled between the state write and the last close listener",
 'C04-1': "Socket.Close(false) between two polls (close buffered), then Server.Close(), then the next poll or the 30 s close timeout",
 'C04-2': "a session closing between Verify's registry lookup and HandleRequest's own lookup",
 'C05-1': "method CONNECT with a path that is not in canonical form",
 'C05-2': "an allow-request hook that refuses the handshake; the observer looks at the HTTP status",
 'C06-1': "two servers in one process with different transport sets, a handshake on the smaller one first",
 'C06-2': "a handshake whose EIO parameter is missing, empty or neither 3 nor 4",
 'C07-1': "a duplicated or unsolicited pong while the interval timer is pending",
 'C07-2': "a silent polling peer with no pending GET at ping time, or one that fetches the ping late and never answers",
 'C08-1': "two candidate connections opened for the same sid before the first sends its probe",
 'C08-2': "the candidate's connection closing after CreateTransport and before MaybeUpgrade attaches its listeners, then the upgrade timeout",
 'C09-1': "a WebSocket read error that is not a close (unmasked frame, oversized message, TCP reset)",
 'C09-2': "the probe ping sent more than once on a candidate transport",
 'C10-1': "HTTP/2 request streamed without content-length and a body above the limit",
 'C10-2': "polling handshake, WebSocket opened with that sid, probe/upgrade exchange, then a frame above the limit",
 'C11-1': "two writers of one response at the same time (DoClose's 429 and the data request's ok) with a slow response writer",
 'C11-2': "a slow message handler and a second POST for the same sid before the first is acknowledged",
 'C12-1': "Close(false) with a buffered packet (state closing), then Server.Close() before the client polls again",
 'C12-2': "buffered packet, no poll pending, Close(false), then the client polls and the stray noop send wins the race for p.mu",
 'C13-1': "a zero-length message written through a path that ends in messageWriter.Close",
 'C13-2': "payload of at least 126 bytes with a fragment or buffer-fill boundary exactly between the first header byte and the length bytes",
 'C14-1': "prepared-message path with a payload above 4096 bytes",
 'C14-2': "a 16/64-bit length field split by arrival or by the 4096-byte bufio refill boundary",
 'C15-1': "a frame whose 64-bit length field has the top bit set",
 'C15-2': "application leaves part of a message unread, a transient stream error lands during the discard, and it reads again",
 'C16-1': "an earlier flush with a compress-requesting packet, then a batch whose packets all opt out, payload above the threshold, Accept-Encoding naming a coding",
 'C16-2': "a JSONP session whose payload contains <, > or &",
 'C17-1': "a CORS policy plus one more middleware that rejects or answers requests itself",
 'C17-2': "an origin-dependent policy and a request from an origin the policy does not allow",
 'C18-1': "a buffered older packet plus a Send-with-callback whose packetCreate emission overlaps the transport becoming writable",
 'C18-2': "a websocket session and Close reached from inside a flush or drain emission",
 'C20-1': "two registrations sharing a code pointer and a later or overlapping emit",
 'C20-2': "a Push or a second drain falling between the copy and the clear",
}
os.chdir(os.path.dirname(os.path.dirname(os.path.abspath(__file__))))
BASE = os.environ.get('SEED_BASE', '/repo')
ids = sys.argv[1:] or sorted(os.path.basename(d.rstrip('/')) for d in glob.glob('seeded/C*-*/'))
rows = []
claimed = {c['property_id'] for c in json.load(open('MANIFEST.json'))['checks']}
import concurrent.futures, shutil, tempfile
def needs_from_notes(d):
    """the section of the sub-agent's notes that says what the change needs in order to manifest (first 600 characters)"""
    try:
        txt = open(d + '/notes.md').read()
    except OSError:
        return ''
    m = re.search(r'^#+[^\n]*\b[Nn]eeds\b[^\n]*\n(.*?)(?=^#+ |\Z)', txt, re.S | re.M)
    if not m:
        m = re.search(r'\*\*[^*\n]*[Nn]eeds[^*\n]*\*\*:?(.*?)(?=\n\s*\n|\Z)', txt, re.S)
    if not m:
        return ''
    t = ' '.join(m.group(1).split())
    return t[:600]
def one(sid):
    d = 'seeded/' + sid
    prop = sid.split('-')[0]
    patch = os.path.abspath(d + '/patch.diff')
    tmp = tempfile.mkdtemp(prefix='seedmx-', dir='/var/tmp')
    try:
        repo = tmp + '/repo'
        subprocess.run(['rsync', '-a', '--exclude', '.git', BASE + '/', repo + '/'], check=True)
        if subprocess.run(['git', 'apply', '--unsafe-paths', '--directory=' + repo, patch], cwd='/').returncode != 0:
            if subprocess.run('cd %s && patch -p1 -s < %s' % (repo, patch), shell=True).returncode != 0:
                return (sid, prop, 'patch does not apply', [])
        res = {'exit': None, 'violations': [], 'engine_problems': []}
        if prop in claimed:
            p = subprocess.run(['./check', prop, 'quick', '-evidence', tmp + '/ev.json', '-replays', tmp + '/replays'], capture_output=True, text=True,
                               env=dict(os.environ, GOFLAGS='-mod=mod', GOPROXY='off', VERIF_REPO=repo))
            res['exit'] = p.returncode
            for l in p.stdout.splitlines():
                if l.startswith('VIOLATION'):
                    m = re.search(r'obligation=(\S+)', l); res['violations'].append(m.group(1) if m else l)
                elif l.startswith('ENGINE-PROBLEM'):
                    res['engine_problems'].append(l[16:200])
    finally:
        shutil.rmtree(tmp, ignore_errors=True)
    detected = res['exit'] == 1 and len(res['violations']) > 0
    demos = [os.path.basename(f) for f in glob.glob(d + '/*_test.go')]
    pkg = open(d + '/demo_pkg.txt').read().strip() if os.path.exists(d + '/demo_pkg.txt') else 'engine'
    meta = {
        'id': sid, 'property': prop,
        'breaks': "see notes.md (written by the sub-agent that produced the change from the property text alone)",
        'needs_to_manifest': NEEDS.get(sid, '') or needs_from_notes(d),
        'demonstration': {'files': demos, 'package_dir': pkg, 'fails_with_change': True, 'passes_without_change': True},
        'confirmed_by': "tools/confirm_seed.sh in a scratch worktree of /repo: go build ./... ok with the change, existing suite (go test -vet=off -count=1 ./...) passes with the change, demonstration fails with it and passes without it (confirm.log)",
        'check_result': {'command': 'VERIF_REPO=<scratch copy of /repo with the patch applied> ./check %s quick' % prop,
                         'detected': detected, 'exit': res['exit'], 'failed_obligations': res['violations'], 'engine_problems': res['engine_problems']},
    }
    json.dump(meta, open(d + '/meta.json', 'w'), indent=1)
    r = (sid, prop, 'DETECTED' if detected else ('not claimed' if prop not in claimed else 'missed'), res['violations'])
    print(sid, r[2], *res['violations'][:3], flush=True)
    return r
with concurrent.futures.ThreadPoolExecutor(max_workers=4) as ex:
    rows = list(ex.map(one, ids))
if not sys.argv[1:]:
    with open('seeded/MATRIX.md', 'w') as f:
        f.write("# Seeded changes and the checks that catch them\n\nGenerated by tools/seed_matrix.py (quick tier, one property check per seed).\n\n| seed | property | result | failed obligations |\n|---|---|---|---|\n")
        for sid, prop, r, v in rows:
            f.write("| %s | %s | %s | %s |\n" % (sid, prop, r, '<br>'.join(v[:4])))
    det = sum(1 for r in rows if r[2] == 'DETECTED')
    print("detected %d of %d" % (det, len(rows)))
